"""
Equivalence probe: serialize fixed inputs with both integrations and digest results.

Run from the worktree:  PYTHONPATH=<worktree> /venv/bin/python equiv.py
Prints two sha256 digests: one over the bytes written, one over the statements
(and namespace declarations) read back from those bytes.
"""

from __future__ import annotations

import hashlib
import io
import os
import sys

HERE = os.path.dirname(os.path.abspath(__file__))

XSD = "http://www.w3.org/2001/XMLSchema#"


def small_options(pyjelly_mods, logical_type, *, frame_size=5, ns=False, delimited=True):
    options, streams = pyjelly_mods["options"], pyjelly_mods["streams"]
    return streams.SerializerOptions(
        logical_type=logical_type,
        frame_size=frame_size,
        params=options.StreamParameters(
            generalized_statements=True,
            rdf_star=True,
            namespace_declarations=ns,
            delimited=delimited,
            stream_name="equiv",
        ),
        lookup_preset=options.LookupPreset(max_names=8, max_prefixes=5, max_datatypes=3),
    )


def iri_text(i: int) -> str:
    # 7 prefixes (table of 5) and 23 names (table of 8): constant eviction,
    # with frequent re-use of recently seen entries
    seps = ["#", "/"]
    return f"http://ex{i % 7}.org/ns{seps[i % 2]}name{(i * 5) % 23}"


DATATYPES = [
    XSD + "integer",
    XSD + "decimal",
    XSD + "string",
    XSD + "date",
    "http://example.org/dt/custom",
    XSD + "boolean",
]


def lex_for(datatype: str, i: int) -> str:
    if datatype.endswith("#date"):
        return f"2020-01-{i % 28 + 1:02d}"
    if datatype.endswith("#boolean"):
        return "true" if i % 2 else "false"
    if datatype.endswith("#decimal"):
        return f"{i}.5"
    return str(i)


def generic_terms(gs, n):
    """Return n generic triples with varied term kinds."""
    out = []
    for i in range(n):
        s = gs.BlankNode(f"b{i % 4}") if i % 5 == 0 else gs.IRI(iri_text(i // 3))
        p = gs.IRI(iri_text(100 + i % 4))
        kind = i % 6
        if kind == 0:
            o = gs.IRI(iri_text(i * 7))
        elif kind == 1:
            o = gs.Literal(f"plain {i}")
        elif kind == 2:
            o = gs.Literal(f"hallo {i}", langtag="de" if i % 4 else "en-GB")
        elif kind == 3:
            dt = DATATYPES[i % len(DATATYPES)]
            o = gs.Literal(lex_for(dt, i), datatype=dt)
        elif kind == 4:
            o = gs.Triple(
                gs.IRI(iri_text(i + 1)),
                gs.IRI(iri_text(100)),
                gs.Literal(
                    lex_for(DATATYPES[(i + 1) % len(DATATYPES)], i),
                    datatype=DATATYPES[(i + 1) % len(DATATYPES)],
                ),
            )
        else:
            o = gs.IRI("urn:noseparator" + str(i % 3))
        out.append(gs.Triple(s, p, o))
        if i % 7 == 3:  # repeat subject+predicate, new object
            out.append(gs.Triple(s, p, gs.Literal("again")))
    return out


def generic_quads(gs, n):
    graphs = [
        gs.DefaultGraph,
        gs.IRI("http://graphs.org/g#one"),
        gs.IRI("http://graphs.org/g#two"),
        gs.BlankNode("g0"),
        gs.Literal("graph literal", datatype=XSD + "integer"),
    ]
    triples = generic_terms(gs, n)
    return [gs.Quad(t.s, t.p, t.o, graphs[(i // 4) % len(graphs)]) for i, t in enumerate(triples)]


def rdflib_triples(rdflib, rp, n):
    out = []
    for i in range(n):
        s = rdflib.BNode(f"b{i % 4}") if i % 5 == 0 else rdflib.URIRef(iri_text(i // 3))
        p = rdflib.URIRef(iri_text(100 + i % 4))
        kind = i % 5
        if kind == 0:
            o = rdflib.URIRef(iri_text(i * 7))
        elif kind == 1:
            o = rdflib.Literal(f"plain {i}")
        elif kind == 2:
            o = rdflib.Literal(f"hallo {i}", lang="de" if i % 4 else "en-GB")
        elif kind == 3:
            dt = DATATYPES[i % len(DATATYPES)]
            o = rdflib.Literal(lex_for(dt, i), datatype=rdflib.URIRef(dt))
        else:
            o = rdflib.URIRef("urn:noseparator" + str(i % 3))
        out.append(rp.Triple(s, p, o))
        if i % 7 == 3:
            out.append(rp.Triple(s, p, rdflib.Literal("again")))
    return out


def rdflib_quads(rdflib, rp, n):
    from rdflib.graph import DATASET_DEFAULT_GRAPH_ID

    graphs = [
        DATASET_DEFAULT_GRAPH_ID,
        rdflib.URIRef("http://graphs.org/g#one"),
        rdflib.URIRef("http://graphs.org/g#two"),
        rdflib.BNode("g0"),
    ]
    return [
        rp.Quad(*t, graphs[(i // 4) % len(graphs)])
        for i, t in enumerate(rdflib_triples(rdflib, rp, n))
    ]


def canon(item) -> str:
    """Canonical text for a parsed statement / prefix (type names included)."""
    if isinstance(item, tuple):
        return type(item).__name__ + "(" + ", ".join(canon(x) for x in item) + ")"
    return type(item).__name__ + ":" + repr(item)


def frames_to_bytes(frames, write_delimited) -> bytes:
    buf = io.BytesIO()
    for frame in frames:
        write_delimited(frame, buf)
    return buf.getvalue()


def main() -> None:
    if os.environ.get("PYTHONHASHSEED") != "0":
        os.environ["PYTHONHASHSEED"] = "0"
        os.execv(sys.executable, [sys.executable, *sys.argv])

    import pyjelly

    assert pyjelly.__file__.startswith(HERE + os.sep), pyjelly.__file__

    import rdflib

    from pyjelly import jelly, options
    from pyjelly.integrations.generic import generic_sink as gs
    from pyjelly.integrations.generic import parse as gparse
    from pyjelly.integrations.generic import serialize as gser
    from pyjelly.integrations.rdflib import parse as rparse
    from pyjelly.integrations.rdflib import serialize as rser
    from pyjelly.serialize import streams
    from pyjelly.serialize.ioutils import write_delimited

    mods = {"options": options, "streams": streams}
    outputs: list[tuple[str, bytes]] = []
    parsed: list[tuple[str, list[str]]] = []

    def record(label, data, parse_flat):
        outputs.append((label, data))
        items = [canon(x) for x in parse_flat(io.BytesIO(data))]
        parsed.append((label, items))

    # ---- generic integration -------------------------------------------------
    g_triples = generic_terms(gs, 60)
    g_quads = generic_quads(gs, 60)

    # flat triples, several frames
    opts = small_options(mods, jelly.LOGICAL_STREAM_TYPE_FLAT_TRIPLES)
    record(
        "generic/flat-triples",
        frames_to_bytes(gser.flat_stream_to_frames(iter(g_triples), opts), write_delimited),
        gparse.parse_jelly_flat,
    )
    # flat quads
    opts = small_options(mods, jelly.LOGICAL_STREAM_TYPE_FLAT_QUADS, frame_size=7)
    record(
        "generic/flat-quads",
        frames_to_bytes(gser.flat_stream_to_frames(iter(g_quads), opts), write_delimited),
        gparse.parse_jelly_flat,
    )
    # physical GRAPHS stream
    opts = small_options(mods, jelly.LOGICAL_STREAM_TYPE_FLAT_QUADS, frame_size=6)
    stream = streams.GraphStream(
        encoder=gser.GenericSinkTermEncoder(lookup_preset=opts.lookup_preset), options=opts
    )
    record(
        "generic/graphs",
        frames_to_bytes(gser.stream_frames(stream, iter(g_quads)), write_delimited),
        gparse.parse_jelly_flat,
    )
    # sinks with namespace declarations, grouped (one frame per sink)
    def sinks():
        for k in range(3):
            sink = gs.GenericStatementSink()
            sink.bind("ex", gs.IRI(f"http://ex{k}.org/ns#"))
            sink.bind("g", gs.IRI("http://graphs.org/g#"))
            for t in g_triples[k * 20 : (k + 1) * 20]:
                sink.add(t)
            yield sink

    opts = small_options(mods, jelly.LOGICAL_STREAM_TYPE_GRAPHS, ns=True)
    record(
        "generic/grouped-graphs-ns",
        frames_to_bytes(gser.grouped_stream_to_frames(sinks(), opts), write_delimited),
        gparse.parse_jelly_flat,
    )
    # sink.serialize with default (large) tables
    sink = gs.GenericStatementSink()
    for q in g_quads:
        sink.add(q)
    buf = io.BytesIO()
    sink.serialize(buf)
    record("generic/sink-serialize-quads", buf.getvalue(), gparse.parse_jelly_flat)

    # ---- rdflib integration --------------------------------------------------
    r_triples = rdflib_triples(rdflib, rparse, 60)
    r_quads = rdflib_quads(rdflib, rparse, 60)

    def ropts(logical_type, **kw):
        o = small_options(mods, logical_type, **kw)
        return streams.SerializerOptions(
            logical_type=o.logical_type,
            frame_size=o.frame_size,
            params=options.StreamParameters(
                namespace_declarations=o.params.namespace_declarations,
                delimited=o.params.delimited,
                stream_name="equiv",
            ),
            lookup_preset=o.lookup_preset,
        )

    opts = ropts(jelly.LOGICAL_STREAM_TYPE_FLAT_TRIPLES)
    record(
        "rdflib/flat-triples",
        frames_to_bytes(rser.flat_stream_to_frames(iter(r_triples), opts), write_delimited),
        rparse.parse_jelly_flat,
    )
    opts = ropts(jelly.LOGICAL_STREAM_TYPE_FLAT_QUADS, frame_size=7)
    record(
        "rdflib/flat-quads",
        frames_to_bytes(rser.flat_stream_to_frames(iter(r_quads), opts), write_delimited),
        rparse.parse_jelly_flat,
    )
    # Graph.serialize through the plugin, namespace declarations, small tables
    graph = rdflib.Graph(bind_namespaces="none")
    graph.bind("ex", rdflib.URIRef("http://ex1.org/ns#"))
    graph.bind("g", rdflib.URIRef("http://graphs.org/g#"))
    for t in r_triples:
        graph.add(tuple(t))
    opts = ropts(jelly.LOGICAL_STREAM_TYPE_FLAT_TRIPLES, ns=True, frame_size=9)
    record(
        "rdflib/graph-serialize-ns",
        graph.serialize(format="jelly", encoding="jelly", options=opts),
        rparse.parse_jelly_flat,
    )
    # non-delimited single frame
    opts = ropts(jelly.LOGICAL_STREAM_TYPE_FLAT_TRIPLES, delimited=False)
    data = graph.serialize(format="jelly", encoding="jelly", options=opts)
    outputs.append(("rdflib/graph-nondelimited", data))
    back = rdflib.Graph()
    back.parse(data=data, format="jelly")
    parsed.append(
        ("rdflib/graph-nondelimited", sorted(canon(rparse.Triple(*t)) for t in back))
    )
    # physical GRAPHS stream from a single-context quad generator
    opts = ropts(jelly.LOGICAL_STREAM_TYPE_FLAT_QUADS, frame_size=6)
    stream = streams.GraphStream.for_rdflib(opts)
    one_graph = [rparse.Quad(*t, rdflib.URIRef("http://graphs.org/g#one")) for t in r_triples]
    record(
        "rdflib/graphs-one-context",
        frames_to_bytes(rser.stream_frames(stream, iter(one_graph)), write_delimited),
        rparse.parse_jelly_flat,
    )

    # ---- error situations: only the exception TYPE is recorded ------------------
    errors: list[str] = []

    def probe(label, fn):
        try:
            fn()
        except Exception as exc:  # noqa: BLE001
            errors.append(f"{label}: {type(exc).__module__}.{type(exc).__name__}")
        else:
            errors.append(f"{label}: no error")

    def no_datatypes():
        o = streams.SerializerOptions(
            logical_type=jelly.LOGICAL_STREAM_TYPE_FLAT_TRIPLES,
            lookup_preset=options.LookupPreset(max_names=8, max_prefixes=0, max_datatypes=0),
        )
        return list(gser.flat_stream_to_frames(iter(g_triples), o))

    def tiny_prefix_table():
        o = streams.SerializerOptions(
            logical_type=jelly.LOGICAL_STREAM_TYPE_FLAT_TRIPLES,
            lookup_preset=options.LookupPreset(max_names=8, max_prefixes=1, max_datatypes=3),
        )
        return list(gser.flat_stream_to_frames(iter(g_triples), o))

    def reuse_failed_stream():
        o = small_options(mods, jelly.LOGICAL_STREAM_TYPE_FLAT_TRIPLES)
        st = streams.TripleStream(encoder=gser.GenericSinkTermEncoder(o.lookup_preset), options=o)
        try:
            st.triple((gs.IRI("http://a/b"), object(), gs.IRI("http://a/c")))
        except NotImplementedError:
            pass
        st.triple(g_triples[0])

    probe("datatype-table-disabled", no_datatypes)
    probe("prefix-table-too-small", tiny_prefix_table)
    probe("reuse-failed-stream", reuse_failed_stream)
    probe("names-below-minimum", lambda: options.LookupPreset(max_names=4))
    probe("abstract-for-rdflib", lambda: streams.Stream.for_rdflib())
    probe("stream-for-unknown-type", lambda: streams.stream_for_type(0))
    probe(
        "incompatible-types",
        lambda: options.StreamTypes(
            jelly.PHYSICAL_STREAM_TYPE_QUADS, jelly.LOGICAL_STREAM_TYPE_FLAT_TRIPLES
        ),
    )
    probe(
        "rdflib-unsupported-term",
        lambda: list(
            rser.flat_stream_to_frames(
                iter([(rdflib.URIRef("http://a/b"), 5, rdflib.URIRef("http://a/c"))])
            )
        ),
    )
    probe("rdflib-literal-graph-name", lambda: list(
        rser.flat_stream_to_frames(iter([rparse.Quad(*r_triples[1], rdflib.Literal("g"))]))
    ))
    probe("n3-not-supported", lambda: rser.RDFLibJellySerializer(
        rdflib.graph.QuotedGraph("default", rdflib.URIRef("http://q"))
    ))
    probe("lookup-zero-insert", lambda: __import__(
        "pyjelly.serialize.lookup", fromlist=["Lookup"]
    ).Lookup(0).insert("x"))
    h_errors = hashlib.sha256("\n".join(errors).encode())

    h_bytes = hashlib.sha256()
    for label, data in outputs:
        h_bytes.update(label.encode() + b"\0" + len(data).to_bytes(8, "big") + data)
    h_stmts = hashlib.sha256()
    total = 0
    for label, items in parsed:
        total += len(items)
        h_stmts.update(("## " + label + "\n").encode())
        for item in items:
            h_stmts.update(item.encode() + b"\n")

    for (label, data), (_, items) in zip(outputs, parsed):
        print(f"{label:32s} {len(data):6d} bytes  {len(items):4d} items")
    print("pyjelly:", pyjelly.__file__)
    print("digest_bytes:", h_bytes.hexdigest())
    print("digest_statements:", h_stmts.hexdigest())
    for line in errors:
        print("  ", line)
    print("digest_errors:", h_errors.hexdigest())
    assert total > 400, total


if __name__ == "__main__":
    main()
