"""
Equivalence probe: read a fixed corpus of Jelly streams through every public
parse entry point and print one sha256 over everything that was read back
(and over the exception type names for the streams that must be rejected).

Run with PYTHONPATH=<worktree> and the worktree as cwd, with and without patch.diff.
"""

from __future__ import annotations

import hashlib
import io
import os
import sys
from contextvars import ContextVar

HERE = os.path.dirname(os.path.abspath(__file__))


class ShortReads(io.RawIOBase):
    """Non-seekable byte source that hands out at most ``step`` bytes per call."""

    def __init__(self, data: bytes, step: int) -> None:
        super().__init__()
        self._data = data
        self._pos = 0
        self._step = step
        self.calls = 0

    def readable(self) -> bool:
        return True

    def seekable(self) -> bool:
        return False

    @property
    def consumed(self) -> int:
        return self._pos

    def read(self, size: int = -1) -> bytes:
        self.calls += 1
        if size is None or size < 0:
            size = len(self._data) - self._pos
        size = min(size, self._step)
        chunk = self._data[self._pos : self._pos + size]
        self._pos += len(chunk)
        return chunk

    def readinto(self, buffer) -> int:  # type: ignore[no-untyped-def, override]
        chunk = self.read(len(buffer))
        buffer[: len(chunk)] = chunk
        return len(chunk)


# --------------------------------------------------------------------------- corpus


def build_corpus() -> dict[str, bytes]:
    import rdflib
    from rdflib import BNode, Dataset, Graph, Namespace, URIRef
    from rdflib import Literal as RLiteral

    from pyjelly import jelly
    from pyjelly.integrations.generic import generic_sink as gs
    from pyjelly.integrations.generic import serialize as gser
    from pyjelly.integrations.rdflib import serialize as rser
    from pyjelly.options import LookupPreset, StreamParameters
    from pyjelly.serialize.flows import DatasetsFrameFlow, FlatQuadsFrameFlow
    from pyjelly.serialize.ioutils import write_delimited, write_single
    from pyjelly.serialize.streams import (
        GraphStream,
        QuadStream,
        SerializerOptions,
        TripleStream,
    )

    small = LookupPreset(max_names=8, max_prefixes=6, max_datatypes=2)
    corpus: dict[str, bytes] = {}

    def dump(frames, *, delimited: bool = True) -> bytes:  # type: ignore[no-untyped-def]
        out = io.BytesIO()
        for frame in frames:
            (write_delimited if delimited else write_single)(frame, out)
        return out.getvalue()

    # ---- generic terms: many prefixes/names so the small lookups evict constantly
    def g_iri(i: int, k: int) -> gs.IRI:
        return gs.IRI(f"http://ex{i % 5}.org/ns{i % 2}/item{k}")

    dts = [
        "http://www.w3.org/2001/XMLSchema#integer",
        "http://www.w3.org/2001/XMLSchema#date",
        "http://example.org/dt#custom",
    ]

    def g_obj(i: int):  # type: ignore[no-untyped-def]
        kind = i % 6
        if kind == 0:
            return gs.Literal(f"plain {i}")
        if kind == 1:
            return gs.Literal(f"hello {i}", langtag="en" if i % 4 == 1 else "pl-PL")
        if kind == 2:
            return gs.Literal(str(i), datatype=dts[i % 3])
        if kind == 3:
            return gs.BlankNode(f"b{i % 4}")
        if kind == 4:
            return g_iri(i + 1, i % 11)
        return gs.Literal(" 007 ", datatype=dts[(i + 1) % 3])

    g_triples = []
    for i in range(37):
        subj = g_iri(i // 3, i // 3) if i % 7 else gs.BlankNode(f"s{i}")
        pred = g_iri(i // 2, 100 + (i // 2) % 3)
        g_triples.append(gs.Triple(subj, pred, g_obj(i)))
    quoted = gs.Triple(g_iri(1, 1), g_iri(2, 2), gs.Literal("q", langtag="en"))
    g_triples.insert(9, gs.Triple(quoted, g_iri(3, 3), gs.Literal("about")))
    g_triples.insert(20, gs.Triple(g_iri(4, 4), g_iri(3, 3), quoted))

    g_names = [
        gs.DefaultGraph,
        gs.IRI("http://graphs.org/g1"),
        gs.BlankNode("gb"),
        gs.IRI("http://graphs.org/g2"),
        gs.DefaultGraph,
    ]
    g_quads = [
        gs.Quad(t.s, t.p, t.o, g_names[(i // 6) % len(g_names)])
        for i, t in enumerate(g_triples)
    ]

    def g_params(**kw):  # type: ignore[no-untyped-def]
        return StreamParameters(generalized_statements=True, rdf_star=True, **kw)

    # generic / TRIPLES / delimited / small frames / namespace declarations
    sink = gs.GenericStatementSink()
    sink.bind("ex0", gs.IRI("http://ex0.org/ns0/"))
    sink.bind("", gs.IRI("http://ex1.org/ns1/"))
    for t in g_triples:
        sink.add(t)
    opts = SerializerOptions(
        logical_type=jelly.LOGICAL_STREAM_TYPE_FLAT_TRIPLES,
        frame_size=5,
        params=g_params(namespace_declarations=True, stream_name="gen-triples"),
        lookup_preset=small,
    )
    stream = TripleStream(
        encoder=gser.GenericSinkTermEncoder(lookup_preset=small), options=opts
    )
    corpus["gen_triples"] = dump(gser.stream_frames(stream, sink))

    # generic / QUADS / delimited
    qsink = gs.GenericStatementSink()
    for q in g_quads:
        qsink.add(q)
    opts = SerializerOptions(
        logical_type=jelly.LOGICAL_STREAM_TYPE_FLAT_QUADS,
        frame_size=4,
        params=g_params(),
        lookup_preset=small,
    )
    stream = QuadStream(
        encoder=gser.GenericSinkTermEncoder(lookup_preset=small), options=opts
    )
    corpus["gen_quads"] = dump(gser.stream_frames(stream, qsink))

    # generic / GRAPHS physical / delimited, frames cut inside graphs
    opts = SerializerOptions(
        flow=FlatQuadsFrameFlow(
            logical_type=jelly.LOGICAL_STREAM_TYPE_FLAT_QUADS, frame_size=6
        ),
        logical_type=jelly.LOGICAL_STREAM_TYPE_FLAT_QUADS,
        params=g_params(),
        lookup_preset=small,
    )
    stream = GraphStream(
        encoder=gser.GenericSinkTermEncoder(lookup_preset=small), options=opts
    )
    corpus["gen_graphs"] = dump(gser.stream_frames(stream, qsink))

    # generic / grouped: one frame per sink (logical GRAPHS), default lookups
    def sinks():  # type: ignore[no-untyped-def]
        for n in range(4):
            s = gs.GenericStatementSink()
            s.bind(f"p{n}", gs.IRI(f"http://ex{n}.org/ns0/"))
            for t in g_triples[n * 8 : n * 8 + 8]:
                s.add(t)
            yield s

    opts = SerializerOptions(
        logical_type=jelly.LOGICAL_STREAM_TYPE_GRAPHS,
        params=g_params(namespace_declarations=True),
    )
    corpus["gen_grouped"] = dump(gser.grouped_stream_to_frames(sinks(), opts))

    # generic / non-delimited single frame
    opts = SerializerOptions(
        logical_type=jelly.LOGICAL_STREAM_TYPE_FLAT_TRIPLES,
        params=g_params(delimited=False),
        lookup_preset=small,
    )
    stream = TripleStream(
        encoder=gser.GenericSinkTermEncoder(lookup_preset=small), options=opts
    )
    corpus["gen_single"] = dump(gser.stream_frames(stream, sink), delimited=False)

    # ---- rdflib
    ex = [Namespace(f"http://rd{i}.example/v{i % 2}#") for i in range(5)]
    r_objs = [
        RLiteral("x"),
        RLiteral("chat", lang="fr"),
        RLiteral("01", datatype=rdflib.XSD.integer),
        RLiteral("2020-01-01", datatype=rdflib.XSD.date),
        BNode("rb1"),
        URIRef("http://rd9.example/thing"),
        RLiteral("1.50", datatype=rdflib.XSD.decimal),
    ]
    r_triples = []
    for i in range(31):
        s = ex[(i // 3) % 5][f"s{i // 3}"] if i % 8 else BNode(f"rs{i}")
        p = ex[(i // 2) % 5][f"p{i % 3}"]
        r_triples.append((s, p, r_objs[i % len(r_objs)]))

    def r_opts(logical, **kw):  # type: ignore[no-untyped-def]
        params = kw.pop("params", StreamParameters())
        return SerializerOptions(
            logical_type=logical, params=params, lookup_preset=small, **kw
        )

    opts = r_opts(
        jelly.LOGICAL_STREAM_TYPE_FLAT_TRIPLES,
        frame_size=4,
        params=StreamParameters(namespace_declarations=True),
    )
    graph = Graph()
    graph.bind("rd0", ex[0])
    graph.bind("rd1", ex[1])
    # a generator keeps the statement order deterministic
    stream = TripleStream.for_rdflib(options=opts)
    stream.enroll()
    stream.namespace_declaration("rd0", str(ex[0]))
    stream.namespace_declaration("rd1", str(ex[1]))
    corpus["rdf_triples"] = dump(
        rser.stream_frames(stream, (rser.Triple(*t) for t in r_triples))
    )

    r_graph_ids = [
        URIRef("http://rd.example/g/a"),
        rdflib.graph.DATASET_DEFAULT_GRAPH_ID,
        BNode("rg"),
        URIRef("http://rd.example/g/b"),
    ]
    r_quads = [
        rser.Quad(*t, r_graph_ids[(i // 5) % len(r_graph_ids)])
        for i, t in enumerate(r_triples)
    ]
    opts = r_opts(jelly.LOGICAL_STREAM_TYPE_FLAT_QUADS, frame_size=7)
    stream = QuadStream.for_rdflib(options=opts)
    corpus["rdf_quads"] = dump(rser.stream_frames(stream, (q for q in r_quads)))

    # rdflib / GRAPHS physical through a Dataset (order inside a store is not fixed,
    # but the bytes are only produced once per run and hashed after sorting)
    ds = Dataset()
    for q in r_quads:
        ds.add((q.s, q.p, q.o, ds.get_context(q.g)))
    opts = r_opts(
        jelly.LOGICAL_STREAM_TYPE_DATASETS,
        flow=DatasetsFrameFlow(logical_type=jelly.LOGICAL_STREAM_TYPE_DATASETS),
    )
    stream = GraphStream.for_rdflib(options=opts)
    corpus["rdf_graphs"] = dump(rser.stream_frames(stream, ds))

    # rdflib / non-delimited through the serializer plugin class
    g2 = Graph()
    for t in r_triples:
        g2.add(t)
    out = io.BytesIO()
    rser.RDFLibJellySerializer(g2).serialize(
        out,
        options=r_opts(
            jelly.LOGICAL_STREAM_TYPE_FLAT_TRIPLES,
            params=StreamParameters(delimited=False),
        ),
    )
    corpus["rdf_single"] = out.getvalue()

    # rdflib / grouped graphs, default lookups
    def graphs():  # type: ignore[no-untyped-def]
        for n in range(3):
            g = Graph()
            for t in r_triples[n * 9 : n * 9 + 9]:
                g.add(t)
            yield g

    out = io.BytesIO()
    rser.grouped_stream_to_file(graphs(), out)
    corpus["rdf_grouped"] = out.getvalue()

    # ---- invalid / hostile streams derived from the valid ones
    def frames_of(data: bytes):  # type: ignore[no-untyped-def]
        from pyjelly.parse.ioutils import frame_iterator

        return list(frame_iterator(io.BytesIO(data)))

    base = frames_of(corpus["gen_triples"])
    corpus["bad_truncated"] = corpus["gen_triples"][:-9]
    corpus["bad_truncated_single"] = corpus["gen_single"][:-5]
    corpus["bad_empty_input"] = b""
    corpus["bad_only_empty_frames"] = dump(
        [jelly.RdfStreamFrame(), jelly.RdfStreamFrame(), jelly.RdfStreamFrame()]
    )
    corpus["bad_empty_single"] = b"\x0a\x00"[:0] + jelly.RdfStreamFrame(
        metadata={"k": b"v"}
    ).SerializeToString()

    # leading empty frames are fine
    corpus["ok_leading_empty"] = dump(
        [jelly.RdfStreamFrame(), jelly.RdfStreamFrame(metadata={"a": b"1"}), *base]
    )

    options_row = base[0].rows[0]

    def with_rows(*rows):  # type: ignore[no-untyped-def]
        return dump([jelly.RdfStreamFrame(rows=[options_row, *rows])])

    name_a = jelly.RdfStreamRow(name=jelly.RdfNameEntry(id=0, value="a"))
    prefix_a = jelly.RdfStreamRow(prefix=jelly.RdfPrefixEntry(id=0, value="http://a/"))
    iri11 = jelly.RdfIri(prefix_id=1, name_id=1)
    full = jelly.RdfTriple(s_iri=iri11, p_iri=iri11, o_bnode="x")
    # subject elided in the very first statement
    corpus["bad_repeat_first"] = with_rows(
        prefix_a,
        name_a,
        jelly.RdfStreamRow(triple=jelly.RdfTriple(p_iri=iri11, o_bnode="x")),
    )
    # reference to a slot of the name table that was never assigned
    corpus["bad_unset_name"] = with_rows(
        prefix_a,
        name_a,
        jelly.RdfStreamRow(triple=full),
        jelly.RdfStreamRow(
            triple=jelly.RdfTriple(o_iri=jelly.RdfIri(prefix_id=1, name_id=5))
        ),
    )
    # name id beyond the table size (8), and entry id beyond the table size
    corpus["bad_name_out_of_range"] = with_rows(
        prefix_a,
        name_a,
        jelly.RdfStreamRow(
            triple=jelly.RdfTriple(
                s_iri=jelly.RdfIri(prefix_id=1, name_id=9), p_iri=iri11, o_bnode="x"
            )
        ),
    )
    corpus["bad_entry_out_of_range"] = with_rows(
        jelly.RdfStreamRow(name=jelly.RdfNameEntry(id=9, value="a")),
    )
    # datatype reference 0 / unset datatype
    corpus["bad_datatype_unset"] = with_rows(
        prefix_a,
        name_a,
        jelly.RdfStreamRow(
            triple=jelly.RdfTriple(
                s_iri=iri11, p_iri=iri11, o_literal=jelly.RdfLiteral(lex="v", datatype=2)
            )
        ),
    )
    # repeated term inside a quoted triple
    corpus["bad_quoted_repeat"] = with_rows(
        prefix_a,
        name_a,
        jelly.RdfStreamRow(triple=full),
        jelly.RdfStreamRow(
            triple=jelly.RdfTriple(
                s_triple_term=jelly.RdfTriple(p_iri=iri11, o_bnode="y"),
                p_iri=iri11,
                o_bnode="z",
            )
        ),
    )
    # a quad row in a TRIPLES stream
    corpus["bad_quad_in_triples"] = with_rows(
        prefix_a,
        name_a,
        jelly.RdfStreamRow(triple=full),
        jelly.RdfStreamRow(
            quad=jelly.RdfQuad(s_iri=iri11, p_iri=iri11, o_bnode="x", g_bnode="g")
        ),
    )
    # GRAPHS stream: triple before any graph start; statement after graph end
    gbase = frames_of(corpus["gen_graphs"])
    g_options_row = gbase[0].rows[0]
    corpus["bad_triple_outside_graph"] = dump(
        [
            jelly.RdfStreamFrame(
                rows=[g_options_row, prefix_a, name_a, jelly.RdfStreamRow(triple=full)]
            )
        ]
    )
    corpus["bad_triple_after_graph_end"] = dump(
        [
            jelly.RdfStreamFrame(
                rows=[
                    g_options_row,
                    prefix_a,
                    name_a,
                    jelly.RdfStreamRow(
                        graph_start=jelly.RdfGraphStart(
                            g_default_graph=jelly.RdfDefaultGraph()
                        )
                    ),
                    jelly.RdfStreamRow(triple=full),
                    jelly.RdfStreamRow(graph_end=jelly.RdfGraphEnd()),
                ]
            ),
            jelly.RdfStreamFrame(rows=[jelly.RdfStreamRow(triple=full)]),
        ]
    )
    # unspecified physical type
    bad_options = jelly.RdfStreamOptions()
    bad_options.CopyFrom(options_row.options)
    bad_options.physical_type = jelly.PHYSICAL_STREAM_TYPE_UNSPECIFIED
    bad_options.logical_type = jelly.LOGICAL_STREAM_TYPE_UNSPECIFIED
    corpus["bad_physical_unspecified"] = dump(
        [jelly.RdfStreamFrame(rows=[jelly.RdfStreamRow(options=bad_options)])]
    )
    # lookup larger than allowed
    huge = jelly.RdfStreamOptions()
    huge.CopyFrom(options_row.options)
    huge.max_name_table_size = 5000
    corpus["bad_huge_lookup"] = dump(
        [jelly.RdfStreamFrame(rows=[jelly.RdfStreamRow(options=huge), name_a])]
    )
    # second options row that disagrees with the first
    other = jelly.RdfStreamOptions()
    other.CopyFrom(options_row.options)
    other.max_prefix_table_size = 77
    corpus["bad_options_changed"] = with_rows(jelly.RdfStreamRow(options=other))
    # hostile length prefix: 3 GiB announced, a few bytes present
    corpus["bad_huge_length"] = corpus["gen_quads"] + b"\x80\x80\x80\x80\x0c" + b"abc"
    # garbage
    corpus["bad_garbage"] = bytes(range(7, 60))
    return corpus


# --------------------------------------------------------------------------- probes


def sources(data: bytes):  # type: ignore[no-untyped-def]
    yield "bytesio", lambda: io.BytesIO(data)
    yield "short3", lambda: ShortReads(data, 3)
    yield "short1000", lambda: ShortReads(data, 1000)
    yield "buffered", lambda: io.BufferedReader(ShortReads(data, 5))  # type: ignore[arg-type]


def rdflib_graph_lines(g) -> list[str]:  # type: ignore[no-untyped-def]
    from rdflib import Dataset

    if isinstance(g, Dataset):
        rows = [
            repr((s, p, o, getattr(c, "identifier", c))) for s, p, o, c in g.quads()
        ]
    else:
        rows = [repr(t) for t in g]
    ns = [repr((p, str(n))) for p, n in g.namespaces() if str(n).startswith("http://rd")]
    return sorted(rows) + ["ns"] + sorted(ns)


def probe(log, label, fn) -> None:  # type: ignore[no-untyped-def]
    """Run fn (a generator of lines); log its lines and how it ended."""
    count = 0
    try:
        for line in fn():
            log(f"{label}|{line}")
            count += 1
    except BaseException as exc:  # noqa: BLE001
        if isinstance(exc, (KeyboardInterrupt, SystemExit, MemoryError)):
            raise
        log(f"{label}|!{type(exc).__name__} after {count}")
        return type(exc).__name__
    log(f"{label}|ok {count}")
    return None


def run() -> tuple[str, dict[str, int]]:
    from pyjelly.integrations.generic import parse as gparse
    from pyjelly.integrations.generic.generic_sink import GenericStatementSink
    from pyjelly.integrations.rdflib import parse as rparse

    digest = hashlib.sha256()
    stats: dict[str, int] = {"lines": 0, "errors": 0}
    errors: dict[str, int] = {}

    def log(line: str) -> None:
        digest.update(line.encode("utf-8", "surrogatepass") + b"\n")
        stats["lines"] += 1
        if os.environ.get("EQUIV_VERBOSE"):
            sys.stderr.write(line + "\n")

    corpus = build_corpus()
    for name in sorted(corpus):
        data = corpus[name]
        log(f"corpus|{name}|{hashlib.sha256(data).hexdigest()}")
        for src_name, make in sources(data):
            for integ_name, mod in (("generic", gparse), ("rdflib", rparse)):
                tag = f"{name}|{src_name}|{integ_name}"

                def flat(mod=mod, strict=False):  # type: ignore[no-untyped-def]
                    src = make()
                    first = True
                    for item in mod.parse_jelly_flat(src, logical_type_strict=strict):
                        if first and isinstance(src, ShortReads):
                            # streaming: how far the source was consumed when the
                            # first item came out
                            yield f"consumed {src.consumed} calls {src.calls}"
                            first = False
                        yield f"{type(item).__name__} {item!r}"

                def grouped(mod=mod, integ_name=integ_name, strict=False):  # type: ignore[no-untyped-def]
                    src = make()
                    meta: ContextVar = ContextVar("meta")  # type: ignore[type-arg]
                    gen = mod.parse_jelly_grouped(
                        src, logical_type_strict=strict, frame_metadata=meta
                    )
                    for n, sink in enumerate(gen):
                        consumed = src.consumed if isinstance(src, ShortReads) else -1
                        md = sorted(dict(meta.get()).items())
                        yield f"frame {n} consumed {consumed} meta {md!r}"
                        if integ_name == "generic":
                            yield from (repr(st) for st in sink)
                            yield repr(list(sink.namespaces))
                        else:
                            yield from rdflib_graph_lines(sink)

                def to_graph(mod=mod, integ_name=integ_name):  # type: ignore[no-untyped-def]
                    sink = mod.parse_jelly_to_graph(make())
                    if integ_name == "generic":
                        yield from (repr(st) for st in sink)
                        yield repr(list(sink.namespaces))
                        yield repr(sink.is_triples_sink)
                    else:
                        yield type(sink).__name__
                        yield from rdflib_graph_lines(sink)

                probes = [
                    ("flat", flat),
                    ("flat_strict", lambda flat=flat: flat(strict=True)),
                    ("grouped", grouped),
                    ("grouped_strict", lambda grouped=grouped: grouped(strict=True)),
                    ("to_graph", to_graph),
                ]
                for pname, fn in probes:
                    err = probe(log, f"{tag}|{pname}", fn)
                    if err:
                        stats["errors"] += 1
                        errors[err] = errors.get(err, 0) + 1

            # entry points that exist in one integration only
            def sink_parse():  # type: ignore[no-untyped-def]
                sink = GenericStatementSink()
                sink.parse(make())
                yield from (repr(st) for st in sink)
                yield repr(list(sink.namespaces))

            def plugin_parse():  # type: ignore[no-untyped-def]
                from rdflib import Dataset

                class Source:
                    def getByteStream(self):  # type: ignore[no-untyped-def]  # noqa: N802
                        return make()

                from rdflib import Graph, URIRef

                target = Graph(identifier=URIRef("urn:equiv:target"))
                rparse.RDFLibJellyParser().parse(Source(), target)  # type: ignore[arg-type]
                yield from rdflib_graph_lines(Dataset(store=target.store))

            for pname, fn in (("sink_parse", sink_parse), ("plugin", plugin_parse)):
                err = probe(log, f"{name}|{src_name}|{pname}", fn)
                if err:
                    stats["errors"] += 1
                    errors[err] = errors.get(err, 0) + 1

    # low level: frame splitting and the delimited hint
    from pyjelly.parse.ioutils import (
        delimited_jelly_hint,
        frame_iterator,
        get_options_and_frames,
    )

    for name in sorted(corpus):
        data = corpus[name]
        log(f"hint|{name}|{delimited_jelly_hint(data[:3])}")

        def low(data=data):  # type: ignore[no-untyped-def]
            src = ShortReads(data, 2)
            options, frames = get_options_and_frames(src)
            yield f"options {options!r} consumed {src.consumed}"
            for frame in frames:
                yield f"rows {len(frame.rows)} consumed {src.consumed}"

        probe(log, f"low|{name}", low)

        def seekable(data=data):  # type: ignore[no-untyped-def]
            src = io.BytesIO(data)
            options, frames = get_options_and_frames(src)
            yield f"options {options!r} at {src.tell()}"
            for frame in frames:
                yield f"rows {len(frame.rows)} at {src.tell()}"

        probe(log, f"seekable|{name}", seekable)

        def raw_frames(data=data):  # type: ignore[no-untyped-def]
            src = io.BytesIO(data)
            for frame in frame_iterator(src):
                yield f"rows {len(frame.rows)} at {src.tell()}"

        probe(log, f"frames|{name}", raw_frames)

    for a in (0x00, 0x0A, 0x0B):
        for b in (0x00, 0x0A):
            for c in (0x00, 0x0A):
                for n in range(4):
                    header = bytes([a, b, c])[:n]
                    log(f"hint|{header.hex()}|{delimited_jelly_hint(header)}")

    log("errors|" + repr(sorted(errors.items())))
    stats["error_kinds"] = len(errors)
    sys.stderr.write(f"stats: {stats} {sorted(errors.items())}\n")
    return digest.hexdigest(), stats


def main() -> None:
    if os.environ.get("PYTHONHASHSEED") != "0":
        # rdflib stores iterate over hashed containers: pin the hash seed so the
        # corpus bytes are the same in every run
        env = dict(os.environ, PYTHONHASHSEED="0")
        os.execve(sys.executable, [sys.executable, *sys.argv], env)  # noqa: S606

    import pyjelly

    assert pyjelly.__file__.startswith(HERE + os.sep), pyjelly.__file__
    digest, _ = run()
    print(digest)


if __name__ == "__main__":
    main()
