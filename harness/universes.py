"""Slice universes of spec/MCWriter.tla (constants for PyWriter), per tier."""
from __future__ import annotations

from .writer import consts

INV = ("Good", "TablesBounded", "Mirrored", "BufBounded")

# exhaustive slices: name -> constants   (state counts measured 2026-10-03, see DESIGN.md section 7)
QUICK_SLICES = {
    "pfx":    consts(MaxP=2, PoolS="PfxS", PoolP="PfxP", PoolO="PfxO"),                                  # 43 981
    "dtq":    consts(MaxD=2, PoolS="DtqS", PoolP="DtqP", PoolO="DtqO"),
    "nameq":  consts(MinNames="One", MaxN=2, MaxP=1, PoolS="NameQ", PoolP="NameQ", PoolO="NameQ"),
    "quads":  consts(MaxP=2, PType=2, PoolS="QdS", PoolP="QdP", PoolO="QdO", PoolG="QdG"),               # 25 855
    "graphs": consts(MaxP=2, PType=3, PoolS="QdS", PoolP="QdP", PoolO="QdO", PoolG="QdG"),               # 50 803
    "flow2":  consts(MaxP=1, FrameSize=2, PoolS="FlS", PoolP="FlP", PoolO="FlO"),                        # 541
    "flow3g": consts(MaxP=1, PType=3, FrameSize=3, PoolS="FlS", PoolP="FlP", PoolO="FlO", PoolG="FlG"),  # 5 900
    "ns":     consts(MaxP=2, NsDecl=True, NsPool="NsSmall", PoolS="FlS", PoolP="FlP", PoolO="FlO"),      # 23 961
}
THOROUGH_SLICES = dict(QUICK_SLICES)
THOROUGH_SLICES.update({
    "qt":      consts(MaxP=2, PoolS="QtS", PoolP="QtP", PoolO="QtO"),                                    # 67 882
    "dt":      consts(MaxD=2, PoolS="DtS", PoolP="DtP", PoolO="DtO"),                                    # 1 297 414
    "name3":   consts(MinNames="One", MaxN=3, MaxP=1, PoolS="NameI", PoolP="NameI", PoolO="NameI"),      # 981 263
    "name3np": consts(MinNames="One", MaxN=3, MaxP=0, PoolS="NameI", PoolP="NameI", PoolO="NameI"),      # 981 263
    "flow1":   consts(MaxP=1, FrameSize=1, PoolS="FlS", PoolP="FlP", PoolO="FlO"),
    "flow1q":  consts(MaxP=1, PType=2, FrameSize=1, PoolS="FlS", PoolP="FlP", PoolO="FlO", PoolG="FlG"),
})

# simulation universes (replayed into the real code)
SIM = {
    "mix-triples": consts(MaxN=8, MaxP=4, MaxD=2, PType=1, PoolS="MixS", PoolP="MixP", PoolO="MixO"),
    "mix-quads":   consts(MaxN=8, MaxP=4, MaxD=2, PType=2, PoolS="MixS", PoolP="MixP", PoolO="MixO", PoolG="MixG"),
    "mix-graphs":  consts(MaxN=8, MaxP=4, MaxD=2, PType=3, PoolS="MixS", PoolP="MixP", PoolO="MixO", PoolG="MixG"),
    "mix-nopfx":   consts(MaxN=8, MaxP=0, MaxD=3, PType=1, PoolS="MixS", PoolP="MixP", PoolO="MixO"),
    "mix-ns":      consts(MaxN=8, MaxP=3, MaxD=2, PType=2, NsDecl=True, NsPool="MixNs", PoolS="R11S", PoolP="R11P", PoolO="R11O", PoolG="R11G"),
    "r11-triples": consts(MaxN=8, MaxP=3, MaxD=2, PType=1, PoolS="R11S", PoolP="R11P", PoolO="R11O"),
    "r11-quads":   consts(MaxN=8, MaxP=4, MaxD=2, PType=2, PoolS="R11S", PoolP="R11P", PoolO="R11O", PoolG="R11G"),
    "r11-graphs":  consts(MaxN=8, MaxP=4, MaxD=2, PType=3, PoolS="R11S", PoolP="R11P", PoolO="R11O", PoolG="R11G"),
    # dense universes: pools so small that consecutive statements share terms all the time (elision right after quoted triples, graph names, literals)
    "r11-dense":   consts(MaxN=8, MaxP=2, MaxD=2, PType=2, PoolS="DenseS", PoolP="DenseP", PoolO="DenseO", PoolG="DenseG"),
    "dense-qt":    consts(MaxN=8, MaxP=2, MaxD=1, PType=1, PoolS="QtS", PoolP="QtP", PoolO="QtO"),
    "dense-qt-q":  consts(MaxN=8, MaxP=2, MaxD=1, PType=2, PoolS="QtS", PoolP="QtP", PoolO="QtO", PoolG="QdG"),
}
PFX_ATOMS = ("a/", "b#", "b/", "c/", "d#", "")

# C18: CheckFits = FALSE -- statements may need more entries than a table has slots
def c18_universes():
    out = {}
    for mp in (1, 2, 3):
        out[f"c18-prefix-{mp}-t"] = ("prefix", consts(MaxP=mp, PType=1, CheckFits=False, AllowReject=True, PoolS="C18Iri", PoolP="C18Iri", PoolO="C18Iri"))
        out[f"c18-prefix-{mp}-q"] = ("prefix", consts(MaxP=mp, PType=2, CheckFits=False, AllowReject=True, PoolS="C18Iri", PoolP="C18Iri", PoolO="C18Iri", PoolG="C18IriG"))
    for md in (1, 2, 3):
        out[f"c18-datatype-{md}-t"] = ("datatype", consts(MaxD=md, PType=1, CheckFits=False, AllowReject=True, PoolS="C18Dt", PoolP="C18Dt", PoolO="C18Dt"))
        out[f"c18-datatype-{md}-q"] = ("datatype", consts(MaxD=md, PType=2, CheckFits=False, AllowReject=True, PoolS="C18Dt", PoolP="C18Dt", PoolO="C18Dt", PoolG="C18DtG"))
    out["c18-prefix-4-q6"] = ("prefix", consts(MaxP=4, PType=2, CheckFits=False, AllowReject=True, PoolS="C18S6", PoolP="C18Iri6", PoolO="C18O6", PoolG="C18Iri6"))
    out["c18-datatype-4-q6"] = ("datatype", consts(MaxD=4, PType=2, CheckFits=False, AllowReject=True, PoolS="C18Dt6", PoolP="C18Dt6", PoolO="C18Dt6", PoolG="C18Dt6"))
    out["c18-name-8"] = ("name", consts(MaxN=8, MaxP=1, CheckFits=False, AllowReject=True, PoolS="C18NmS", PoolP="C18NmP", PoolO="C18NmO"))
    out["c18-name-8npx"] = ("name", consts(MaxN=8, MaxP=0, CheckFits=False, AllowReject=True, PoolS="C18NxS", PoolP="C18NxP", PoolO="C18NxO"))
    out["c18-name-8np"] = ("name", consts(MaxN=8, MaxP=0, CheckFits=False, AllowReject=True, PoolS="C18NmS", PoolP="C18NmP", PoolO="C18NmO"))
    return out

# state-graph comparison with refusals (small pools: every reachable state x every call is walked on real objects)
WG = {
    "wg-c18p": consts(MaxP=2, PType=1, CheckFits=False, AllowReject=True, PoolS="C18IriS", PoolP="C18IriS", PoolO="C18IriS"),
    "wg-c18pq": consts(MaxP=2, PType=2, CheckFits=False, AllowReject=True, PoolS="C18IriQ", PoolP="QdP", PoolO="C18IriQ", PoolG="C18IriG3"),
    "wg-c18g": consts(MaxP=1, PType=3, CheckFits=False, AllowReject=True, PoolS="C18IriQ", PoolP="QdP", PoolO="C18IriQ", PoolG="C18IriG3"),
    "wg-c18d": consts(MaxD=1, PType=1, CheckFits=False, AllowReject=True, PoolS="C18DtS", PoolP="C18DtS", PoolO="C18DtS"),
}

# C20: rejections at every slot, for each cause
C20 = {
    "c20-triples": consts(MaxP=2, MaxD=0, PType=1, AllowReject=True, PoolS="RejS", PoolP="RejP", PoolO="RejO"),
    "c20-quads":   consts(MaxP=2, MaxD=0, PType=2, AllowReject=True, PoolS="RejS", PoolP="RejP", PoolO="RejO", PoolG="RejG"),
    "c20-small":   consts(MaxP=1, MaxD=1, PType=1, AllowReject=True, CheckFits=False, PoolS="RejS", PoolP="RejP", PoolO="RejO"),
}
