"""Worker process for C17: parses hostile inputs under resource limits and reports what happened, one JSON line per input."""
from __future__ import annotations

import io
import json
import resource
import sys

from . import env

env.import_pyjelly()

ENTRY_POINTS = [("generic", "flat"), ("generic", "grouped"), ("generic", "to_graph"), ("rdflib", "flat"), ("rdflib", "grouped"), ("rdflib", "to_graph")]


class OneShotRaw(io.RawIOBase):
    """non-seekable source handing over at most `chunk` bytes per read"""

    def __init__(self, data, chunk):
        self.data, self.pos, self.chunk = data, 0, chunk

    def readable(self):
        return True

    def seekable(self):
        return False

    def readinto(self, b):
        n = min(len(b), self.chunk, len(self.data) - self.pos)
        b[:n] = self.data[self.pos:self.pos + n]
        self.pos += n
        return n


def run_one(integ, entry, src):
    mod = __import__(f"pyjelly.integrations.{integ}.parse", fromlist=["parse_jelly_flat"])
    n = 0
    if entry == "flat":
        for _ in mod.parse_jelly_flat(src):
            n += 1
    elif entry == "grouped":
        for sink in mod.parse_jelly_grouped(src):
            n += len(sink)
    else:
        n = len(mod.parse_jelly_to_graph(src))
    return n


def main():
    import logging  # noqa: PLC0415

    logging.disable(logging.CRITICAL)
    resource.setrlimit(resource.RLIMIT_AS, (3 * 2**30, 3 * 2**30))
    sys.setrecursionlimit(3000)
    for line in sys.stdin:
        job = json.loads(line)
        if "scaling_rows" in job:
            # time the flat parse of ONE frame holding n tiny rows (built here: the hex of 400 000 rows is not worth a pipe)
            import time  # noqa: PLC0415

            from . import wire  # noqa: PLC0415

            bn = {"t": "bn", "v": "b"}
            opt = {"r": "opt", "name": "", "pt": 1, "gen": False, "star": False, "mn": 8, "mp": 0, "md": 0, "lt": 1, "ver": 1}
            row = wire._ld(1, wire.enc_row({"r": "triple", "s": bn, "p": bn, "o": bn})) if job.get("explicit") else wire._ld(1, wire.enc_row({"r": "triple", "o": bn}))
            first = wire._ld(1, wire.enc_row(opt)) + wire._ld(1, wire.enc_row({"r": "triple", "s": bn, "p": bn, "o": bn}))
            body = first + row * job["scaling_rows"]
            data_ = wire.enc_varint(len(body)) + body
            out = {}
            for integ in ("generic", "rdflib"):
                t0 = time.perf_counter()
                try:
                    n = run_one(integ, "flat", io.BytesIO(data_))
                except Exception as ex:  # noqa: BLE001
                    n = "raise:" + type(ex).__name__
                out[integ] = [n, time.perf_counter() - t0]
            sys.stdout.write(json.dumps({"id": job["id"], "scaling": out}) + "\n")
            sys.stdout.flush()
            continue
        data = bytes.fromhex(job["hex"])
        res = {}
        rss0 = resource.getrusage(resource.RUSAGE_SELF).ru_maxrss
        for integ, entry in ENTRY_POINTS:
            for source in job["sources"]:
                tmp = None
                if source == "file":                       # a real file object: BufferedReader over FileIO, seekable
                    import os  # noqa: PLC0415
                    import tempfile  # noqa: PLC0415

                    fd, tmp = tempfile.mkstemp(dir=env.workdir(), suffix=".jelly")
                    with os.fdopen(fd, "wb") as f:
                        f.write(data)
                    src = open(tmp, "rb")  # noqa: SIM115
                elif source == "buffered":                 # BufferedReader over an in-memory raw stream
                    src = io.BufferedReader(io.BytesIO(data))
                else:
                    src = io.BytesIO(data) if source == "bytesio" else OneShotRaw(data, 7 if source == "raw7" else 1 << 20)
                try:
                    n = run_one(integ, entry, src)
                    res[f"{integ}.{entry}/{source}"] = f"ok:{n}"
                except MemoryError:
                    res[f"{integ}.{entry}/{source}"] = "MEMORY"
                except RecursionError:
                    res[f"{integ}.{entry}/{source}"] = "raise:RecursionError"
                except Exception as ex:  # noqa: BLE001
                    res[f"{integ}.{entry}/{source}"] = "raise:" + type(ex).__name__
                except BaseException as ex:  # noqa: BLE001
                    res[f"{integ}.{entry}/{source}"] = "BASE:" + type(ex).__name__
                finally:
                    if tmp is not None:
                        import os  # noqa: PLC0415

                        src.close()
                        os.unlink(tmp)
        rss1 = resource.getrusage(resource.RUSAGE_SELF).ru_maxrss
        sys.stdout.write(json.dumps({"id": job["id"], "res": res, "rss_growth_kb": rss1 - rss0}) + "\n")
        sys.stdout.flush()


if __name__ == "__main__":
    main()
