"""C13 -- stream header fidelity and stream-type validation."""
from __future__ import annotations

import io
import itertools
import json
import random

from .. import env, impl, report, tlc, usage, wire
from ..writer import cfg_text

PT_OF = {"triple": 1, "quad": 2, "graph": 3}
BN = {"t": "bn", "v": "b"}


def stream_bytes(h, *, delimited=True, name=""):
    """A minimal stream with that header, made by /verif's own codec (also for pairs pyjelly's writer refuses)."""
    opt = {"r": "opt", "name": name, "pt": h["pt"], "gen": False, "star": False, "mn": h["mn"], "mp": h["mp"], "md": h["md"],
           "lt": h["lt"], "ver": h["ver"]}
    rows = [opt]
    if h["pt"] == 2:
        rows.append({"r": "quad", "s": BN, "p": BN, "o": BN, "g": {"t": "dg"}})
    elif h["pt"] == 3:
        rows += [{"r": "gs", "g": {"t": "dg"}}, {"r": "triple", "s": BN, "p": BN, "o": BN}, {"r": "ge"}]
    else:
        rows.append({"r": "triple", "s": BN, "p": BN, "o": BN})
    fr = {"rows": rows}
    return wire.enc_delimited([fr]) if delimited else wire.enc_frame(fr)


_CALLS = [0]


def call_parser(integ, parser, strict, data, preread=False):
    mod = __import__(f"pyjelly.integrations.{integ}.parse", fromlist=["parse_jelly_flat"])
    # the byte source is rotated as well (in-memory kinds of the usage lattice): the verdict on a header does not depend on it
    _CALLS[0] += 1
    inp, _ = usage.open_source(("bytesio", "bytesio-at-offset", "duck-typed-seekable", "pipe-1-1-1", "buffered-over-pipe", "pipe-7-byte-reads")[_CALLS[0] % 6], data, "")
    if parser == "flat":
        if preread:      # the documented two-step use: the caller reads the header itself and hands options and frames over
            from pyjelly.parse.ioutils import get_options_and_frames as _gof  # noqa: PLC0415

            options, frames = _gof(inp)
            return [repr(x) for x in mod.parse_jelly_flat(inp, frames=frames, options=options, logical_type_strict=strict)]
        return [repr(x) for x in mod.parse_jelly_flat(inp, logical_type_strict=strict)]
    out = []
    for sink in mod.parse_jelly_grouped(inp, logical_type_strict=strict):
        out.append(sorted(repr(x) for x in (sink.quads() if hasattr(sink, "quads") else sink)))
    return out


SOURCES = ["bytesio", "second-member", "bytesio-at-offset", "file-at-offset", "duck-typed-seekable", "pipe-1-1-1", "buffered-over-pipe", "socket-makefile",
           "spooled-temporary-file", "pipe-7-byte-reads", "socket-makefile-unbuffered"]


def names(rnd):
    base = ["", "t", "n" * 7, "stream 名前 \U0001F600", "x" * 300, " padded ", "trailing\n", "\t", "\u00a0nbsp\u00a0", "é", "a\nb\t\"c\"\\",
            "x" * 127, "x" * 128, "nul\x00inside"]
    return base


def main(tier: str) -> int:
    run = report.Run("C13", "model_checking", tier)
    rnd = random.Random(env.seed())
    quick = tier == "quick"
    r = tlc.run("PyHeader", cfg_text({"Quick": quick}, ("StrictPartition", "NonStrictIgnoresLT")), workers=1, timeout=900)
    if r.violated or not r.ok:
        env.machinery_failure(f"C13: PyHeader {r.violated or r.errors[:2]}")
    points = [json.loads(p) for p in r.printed("READ")]
    if len(points) < 10000:
        env.machinery_failure(f"C13: only {len(points)} lattice points from TLC")
    # ---- read side: every header x parser x strict x integration
    evaluated = 0
    results: dict = {}
    samples = []
    for pt in points:
        h, c, want = pt["h"], pt["c"], pt["accept"]
        data = stream_bytes(h)
        for integ in ("generic", "rdflib"):
            evaluated += 1
            preread = c["parser"] == "flat" and evaluated % 3 == 0
            try:
                out = call_parser(integ, c["parser"], c["strict"], data, preread=preread)
                got, exc = True, None
            except Exception as ex:  # noqa: BLE001
                out, got, exc = None, False, f"{type(ex).__name__}: {str(ex)[:80]}"
            key = {"side": "read", "integ": integ, "parser": c["parser"], "strict": c["strict"], **({"preread": True} if preread else {})}
            rp = {"header": h, "call": c, "hex": data.hex(), "exception": exc}
            if got and not want:
                why = ("forbidden-type-pair" if h["pt"] in (1, 2, 3) and h["lt"] and ((h["pt"] == 1) != (h["lt"] in (1, 3, 13))) else
                       "physical-type" if h["pt"] not in (1, 2, 3) else "name-table-lt-8" if h["mn"] < 8 else
                       "table-gt-4096" if max(h["mn"], h["mp"], h["md"]) > 4096 else "version" if h["ver"] > 2 else "strict-logical-type")
                run.violation(dict(key, clause="accepted-invalid-header", why=why), f"header {h} accepted by {integ} {c['parser']} parser (strict={c['strict']}); must be rejected: {why}", rp)
            elif want and not got:
                run.violation(dict(key, clause="rejected-valid-header"), f"header {h} rejected by {integ} {c['parser']} parser (strict={c['strict']}): {exc}", rp)
            if got and not c["strict"]:
                # without strict checking the logical type never influences what is parsed
                k = (integ, c["parser"], h["pt"], h["mn"], h["mp"], h["md"], h["ver"])
                prev = results.setdefault(k, (h["lt"], out))
                if prev[1] != out:
                    run.violation(dict(key, clause="logical-type-influences-parse"),
                                  f"same stream parsed differently under logical types {prev[0]} and {h['lt']}", rp)
        if len(samples) < 2 and want and c["strict"]:
            samples.append({"header": h, "call": c, "accept": want})
    # ---- write side: what the writer accepts and what it writes into the header; what pyjelly's reader is told
    from pyjelly.parse.ioutils import get_options_and_frames  # noqa: PLC0415

    presets = [(8, 0, 0), (8, 1, 1), (4096, 4096, 4096), (255, 256, 4095)] + ([] if quick else [(4000, 150, 32), (9, 4096, 0), (128, 0, 32)])
    name_pool = names(rnd) if not quick else names(rnd)[:9]
    written = 0
    prev_data = stream_bytes({"pt": 2, "mn": 77, "mp": 7, "md": 3, "lt": 2, "ver": 1}, name="the first member")
    sources_used: dict = {}
    st = (("iri", "http://e/s"), ("iri", "http://e/p"), ("lit", "v", "", ""))
    for sclass, lt, delimited, nsdecl in itertools.product(("triple", "quad", "graph"), (0, 1, 2, 3, 4, 13, 14, 114), (True, False), (True, False)):
        for preset in presets:
            for gen, star in itertools.product((False, True), repeat=2):
                name = name_pool[written % len(name_pool)]
                written += 1
                # the version the caller passes must not matter: it is 2 exactly when declarations are enabled
                version = (None, 1, 2)[written % 3]
                cfg = impl.default_cfg(integ=("generic", "rdflib")[written % 2] if not star and not gen else "generic", entry="stream_frames", sclass=sclass, ltype=lt,
                                       delimited=delimited, preset=preset, gen=gen, star=star, nsdecl=nsdecl, name=name, frame_size=250, version=version)
                key = {"side": "write", "sclass": sclass, "ltype": impl.LT_NAMES[lt], "delimited": delimited}
                rp = {"cfg": cfg}
                stmt = st if sclass == "triple" else st + (("dg",),)
                info: dict = {}
                try:
                    data = impl.serialize(cfg, [stmt], info=info)
                    exc = None
                except Exception as ex:  # noqa: BLE001
                    data, exc = None, f"{type(ex).__name__}: {str(ex)[:80]}"
                forbidden = lt != 0 and ((sclass == "triple") != (lt in (1, 3, 13)))
                if forbidden and exc is None:
                    run.violation(dict(key, clause="writer-accepts-forbidden-pair"), f"{sclass} stream with logical type {lt} was written", rp)
                    continue
                if not forbidden and exc is not None:
                    run.violation(dict(key, clause="writer-refuses-valid-configuration"), exc, rp)
                    continue
                if exc is not None:
                    continue
                frames = wire.dec_stream(data, delimited=delimited)
                opt = frames[0]["rows"][0]
                eff_lt = info["stream"].stream_types.logical_type
                want = {"r": "opt", "name": name, "pt": PT_OF[sclass], "gen": gen, "star": star, "mn": preset[0], "mp": preset[1], "md": preset[2],
                        "lt": lt if lt else eff_lt, "ver": 2 if nsdecl else 1}
                if opt != want:
                    diff = {k: (want[k], opt.get(k)) for k in want if opt.get(k) != want[k]}
                    run.violation(dict(key, clause="header-written-differs", fields=sorted(diff)), f"configured vs written: {diff}", rp)
                    continue
                # what the reader is told must not depend on where the bytes come from: the sources of the usage lattice in turn, and the
                # stream as the SECOND member of a file whose first member is the previous stream (another header), reached with seek()
                src_kind = SOURCES[written % len(SOURCES)]
                cleanup = None
                try:
                    if src_kind == "second-member":
                        src = io.BytesIO(prev_data + data)
                        src.seek(len(prev_data))
                    else:
                        src, cleanup = usage.open_source(src_kind, data, env.workdir())
                    po, _ = get_options_and_frames(src)
                except Exception as ex:  # noqa: BLE001
                    run.violation(dict(key, clause="reader-rejects-own-header", source=src_kind), f"{type(ex).__name__}: {ex}", rp)
                    continue
                finally:
                    if cleanup:
                        cleanup()
                sources_used[src_kind] = sources_used.get(src_kind, 0) + 1
                if delimited:
                    prev_data = data
                told = {"name": po.params.stream_name, "pt": po.stream_types.physical_type, "lt": po.stream_types.logical_type,
                        "gen": po.params.generalized_statements, "star": po.params.rdf_star, "mn": po.lookup_preset.max_names,
                        "mp": po.lookup_preset.max_prefixes, "md": po.lookup_preset.max_datatypes, "ver": po.params.version,
                        "nsdecl": po.params.namespace_declarations, "delimited": po.params.delimited}
                exp = dict({k: v for k, v in want.items() if k != "r"}, nsdecl=nsdecl, delimited=delimited)
                if told != exp:
                    diff = {k: (exp[k], told.get(k)) for k in exp if told.get(k) != exp[k]}
                    run.violation(dict(key, clause="reader-told-differently", fields=sorted(diff), source=src_kind), f"written vs what the reader is told (bytes from {src_kind}): {diff}", rp)
    # defaults: no options at all, and the documented LookupPreset.small()
    from pyjelly.options import LookupPreset  # noqa: PLC0415
    from pyjelly.serialize.streams import SerializerOptions  # noqa: PLC0415

    _sz = lambda lp: (lp.max_names, lp.max_prefixes, lp.max_datatypes)  # noqa: E731   (whatever the defaults are: the header must say what the options object says)
    for label, opts, exp_sizes in (("no-options", None, _sz(LookupPreset())), ("default-options", SerializerOptions(), _sz(SerializerOptions().lookup_preset)),
                                   ("LookupPreset.small()", SerializerOptions(lookup_preset=LookupPreset.small()), _sz(LookupPreset.small()))):
        for integ in ("generic", "rdflib"):
            written += 1
            try:
                from .. import terms as _t  # noqa: PLC0415
                mod = __import__(f"pyjelly.integrations.{integ}.serialize", fromlist=["flat_stream_to_file"])
                out_ = io.BytesIO()
                gen_ = (x for x in [_t.stmt_to_generic(st) if integ == "generic" else impl.rdflib_statement(st)])
                if opts is None:
                    mod.flat_stream_to_file(gen_, out_)
                else:
                    mod.flat_stream_to_file(gen_, out_, opts)
                opt = wire.dec_delimited(out_.getvalue())[0]["rows"][0]
            except Exception as ex:  # noqa: BLE001
                run.violation({"side": "write", "clause": "writer-refuses-valid-configuration", "sclass": "triple", "ltype": "default", "delimited": True, "defaults": label},
                              f"{type(ex).__name__}: {str(ex)[:80]}", {"defaults": label, "integ": integ})
                continue
            got_sizes = (opt["mn"], opt["mp"], opt["md"])
            if got_sizes != exp_sizes or opt["pt"] != 1 or opt["lt"] != 1 or opt["ver"] != 1:
                run.violation({"side": "write", "clause": "header-written-differs", "fields": ["defaults"], "sclass": "triple", "ltype": "default", "delimited": True, "defaults": label},
                              f"{label} ({integ}): header {opt}, the options object says {exp_sizes}, FLAT_TRIPLES, version 1", {"defaults": label, "integ": integ})
    # name tables below 8 are refused by the writer as well
    for mn in (0, 1, 7):
        try:
            impl.make_options(impl.default_cfg(preset=(mn, 0, 0)))
            run.violation({"side": "write", "clause": "writer-accepts-small-name-table"}, f"LookupPreset(max_names={mn}) accepted", {"max_names": mn})
        except Exception:  # noqa: BLE001
            pass
    if len(samples) < 3:
        samples.append({"write_configurations": written})
    return run.finish({
        "states": r.distinct, "transitions": r.generated, "traces_validated_against_impl": evaluated + written, "samples": samples, "exhaustive": True,
        "read_lattice_points": len(points), "read_evaluations": evaluated, "write_configurations": written, "header_read_from_sources": sources_used,
        "explanation": "spec/PyHeader.tla states the reader contract for headers (type pairs, sizes, version, strict gates) and TLC enumerates the lattice "
                       "pt x lt x sizes x version x parser x strict with the expected outcome of each point; every point is turned into bytes by /verif's codec and handed to "
                       "both integrations' flat and grouped parsers; the writer lattice (class x logical type x delimited x nsdecl x presets x flags x names) is replayed and the "
                       "header read by /verif's codec and by get_options_and_frames (from eleven kinds of byte source in turn, among them the second member of a two-stream file reached with seek) is compared with the configuration",
    })
