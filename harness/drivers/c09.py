"""C09 -- parsing is independent of how the byte source chunks its reads."""
from __future__ import annotations

import gzip
import io
import itertools
import os
import random
import tempfile
from concurrent.futures import ThreadPoolExecutor

from .. import env, framing, impl, report, terms, universes as U, wire, writer


def real_streams(seed, tier):
    """Real pyjelly output (delimited with several frames / single frame, and non-delimited)."""
    out = []
    for uni, fs, delim in (("r11-triples", 2, True), ("r11-quads", 1, True), ("r11-triples", 250, True), ("r11-triples", 250, False),
                           ("r11-graphs", 3, True)):
        c = U.SIM[uni]
        behs, _ = writer.simulate(c, num=2 if tier == "quick" else 8, hist_len=8, seed=seed + 9)
        for beh in behs:
            res = writer.replay_stepwise(beh, c, writer.Subst(), delimited=delim, frame_size=fs)
            if res["bytes"]:
                out.append((f"{uni}/fs{fs}/{'delimited' if delim else 'single'}", res["bytes"], delim))
    # a tiny stream: options-only frame, and one with leading empty frames (reference encoder)
    opt = {"r": "opt", "name": "", "pt": 1, "gen": False, "star": False, "mn": 8, "mp": 0, "md": 0, "lt": 1, "ver": 1}
    bn = {"t": "bn", "v": "b"}
    tr = {"r": "triple", "s": bn, "p": bn, "o": bn}
    out.append(("tiny/leading-empty-frames", wire.enc_delimited([{"rows": []}, {"rows": []}, {"rows": [opt, tr]}, {"rows": [tr]}]), True))
    out.append(("tiny/options-only-first-frame", wire.enc_delimited([{"rows": [opt]}, {"rows": [tr]}]), True))
    # first frames of exactly 10 (= 0x0A, the magic byte of the detector), 11, 12 and 13 bytes: the header is 0A 0A 08 / 0B 0A 09 / ...
    for label_, o_ in (("10", dict(opt, lt=0)), ("11", dict(opt, lt=0, mn=200)), ("12", opt), ("13", dict(opt, lt=0, name="a"))):
        d_ = wire.enc_delimited([{"rows": [o_]}, {"rows": [tr]}, {"rows": [tr]}])
        assert d_[0] == int(label_), (label_, d_[:4].hex())
        out.append((f"tiny/first-frame-{label_}-bytes", d_, True))
    return out


def parse_all(integ, source):
    return impl.parse(integ, source, "flat"), impl.parse


def main(tier: str) -> int:
    run = report.Run("C09", "model_checking", tier)
    seed = env.seed()
    rnd = random.Random(seed)
    # --- the model: all schedules of short reads over small concrete streams
    shapes = [(True, (12, 5), 4), (True, (0, 9, 3), 3), (True, (10, 4), 8), (False, (14,), 10), (False, (9,), 4), (True, (130,), 20)]
    if tier == "thorough":
        shapes += [(True, (3, 3, 3, 3), 1), (True, (0, 0, 6), 2), (False, (130,), 10)]

    def mc(job):
        i, (delim, lens, r) = job
        once = framing.run_framing(f"MCF{i}a", delimited=delim, frame_lens=lens, first_row_len=r, peek_once=True,
                                   invariants=("PrintRun",), chunks=(1, 2, 3, 5))
        fixed = framing.run_framing(f"MCF{i}b", delimited=delim, frame_lens=lens, first_row_len=r, peek_once=False,
                                    invariants=("HintCorrect", "ChunkingIrrelevant", "ClassifiedRight"), chunks=(1, 2, 3, 5))
        return job, once, fixed

    with ThreadPoolExecutor(6) as ex:
        models = list(ex.map(mc, list(enumerate(shapes))))
    states = trans = 0
    predicted_bad = set()
    schedules = set()
    for (i, shape), once, fixed in models:
        if not once.ok or fixed.violated or not fixed.ok:
            env.machinery_failure(f"C09: PyFraming on {shape}: {once.errors[:2]} {fixed.violated} {fixed.errors[:2]}")
        states += once.distinct + fixed.distinct
        trans += once.generated + fixed.generated
        for runrec in framing.runs_of(once):
            schedules.add(tuple(runrec["reads"]))
            if runrec["outcome"] != "eof":
                predicted_bad.add(tuple(runrec["reads"])[:1])
    # schedules to replay: every schedule prefix the model explored (first 4 reads), then the rest in various sizes
    sched_list = sorted(schedules)
    if tier == "quick" and len(sched_list) > 260:
        keep = [s for s in sched_list if len(s) <= 2] + rnd.sample([s for s in sched_list if len(s) > 2], 200)
        sched_list = sorted(set(keep))
    streams = real_streams(seed, tier)
    evaluations = 0
    samples = []
    # larger streams: > 64 KiB and > 1000 frames, and frames whose payload is exactly 1 MiB - 1 / 1 MiB / 1 MiB + 1 (the frame reader's chunk size),
    # with short reads late in the stream and around the 8 KiB buffer refills
    I_ = lambda x: ("iri", x)  # noqa: E731
    many = [(I_(f"http://e/s{i % 50}"), I_(f"http://e/p{i % 7}"), ("lit", f"value {i}", "", "")) for i in range(2400 if tier == "quick" else 9000)]
    big_streams = [("many-frames", impl.serialize(impl.default_cfg(integ="generic", entry="flat_to_file", sclass="triple", ltype=1, frame_size=2, preset=(64, 8, 0)), many))]
    for target in (2**20 - 1, 2**20, 2**20 + 1):
        def build(n_):
            sts = [(I_("http://e/s"), I_("http://e/p"), ("lit", "a", "", "")), (I_("http://e/s"), I_("http://e/p"), ("lit", "L" * n_, "", "")),
                   (I_("http://e/s2"), I_("http://e/p"), ("lit", "z", "", ""))]
            d_ = impl.serialize(impl.default_cfg(integ="generic", entry="flat_to_file", sclass="triple", ltype=1, frame_size=1, preset=(8, 4, 0)), sts)
            return d_, [e - b for _, b, e in wire.frame_extents(d_)]
        n_ = target
        for _ in range(4):
            d_, lens_ = build(n_)
            big_ = max(lens_)
            if big_ == target:
                break
            n_ -= big_ - target
        if max(lens_) == target:
            big_streams.append((f"frame-payload-{target}", d_))
    for label, data in big_streams:
        try:
            want_big = impl.parse("generic", data, "flat")
        except Exception as ex:  # noqa: BLE001
            run.violation({"source": "BytesIO", "integ": "generic", "clause": "raised", "stream": label},
                          f"{label}: pyjelly's own output does not parse even all at once from BytesIO: {type(ex).__name__}: {str(ex)[:80]}", {"stream": label})
            continue
        scheds = [[], [8192], [8191, 1], [4096, 4096, 1, 2, 3], [100] * 30 + [1, 2, 3]] + [[rnd.choice([1, 2, 3, 7, 100, 4096, 8191, 8192, 8193, 65536]) for _ in range(40)] for _ in range(6)]
        for sched in scheds:
            for then in (None, 8192, 1000):
                evaluations += 1
                try:
                    got = impl.parse("generic", framing.ChunkedRaw(data, sched, then=then), "flat")
                    if got != want_big:
                        run.violation({"source": "non-seekable", "integ": "generic", "clause": "result-differs", "stream": label, "first_read_lt_3": False},
                                      f"{label}: schedule {sched[:8]}... (then {then}): {len(got)} items vs {len(want_big)} all at once", {"stream": label, "schedule": sched, "then": then})
                except Exception as ex:  # noqa: BLE001
                    run.violation({"source": "non-seekable", "integ": "generic", "clause": "raised", "stream": label, "first_read_lt_3": False, "framing": "delimited"},
                                  f"{label}: schedule {sched[:8]}... (then {then}): {type(ex).__name__}: {str(ex)[:80]}", {"stream": label, "schedule": sched, "then": then})
        with tempfile.TemporaryDirectory(dir=env.workdir()) as d:
            for kind, opener in framing.seekable_sources(data, d):
                evaluations += 1
                try:
                    with opener() as src:
                        got = impl.parse("generic", src, "flat")
                    if got != want_big:
                        run.violation({"source": kind, "integ": "generic", "clause": "result-differs", "stream": label}, f"{label} from {kind}: {len(got)} vs {len(want_big)} items", {"stream": label})
                except Exception as ex:  # noqa: BLE001
                    run.violation({"source": kind, "integ": "generic", "clause": "raised", "stream": label}, f"{label} from {kind}: {type(ex).__name__}: {str(ex)[:80]}", {"stream": label})
    for label, data, delim in streams:
        try:
            want = {integ: impl.parse(integ, data, "flat") for integ in ("generic", "rdflib")}
            wantg = impl.parse("generic", data, "grouped") if delim else None
        except Exception as ex:  # noqa: BLE001
            run.violation({"source": "BytesIO", "integ": "both", "clause": "raised", "stream": label},
                          f"{label}: the stream does not parse even all at once from BytesIO: {type(ex).__name__}: {str(ex)[:80]}", {"stream": label, "hex": data.hex()[:2000]})
            continue
        for sched in sched_list:
            if sum(sched) > len(data) + 5:
                continue
            for then in (None, 1, 7):
                for integ in ("generic", "rdflib"):
                    if integ == "rdflib" and then == 7:
                        continue
                    evaluations += 1
                    src = framing.ChunkedRaw(data, sched, then=then)
                    key = {"source": "non-seekable", "integ": integ, "first_read_lt_3": bool(sched) and sched[0] < 3 and len(data) >= 3,
                           "framing": "delimited" if delim else "single"}
                    rp = {"stream": label, "schedule": list(sched), "then": then, "hex": data.hex()}
                    try:
                        got = impl.parse(integ, src, "flat")
                    except Exception as ex:  # noqa: BLE001
                        run.violation(dict(key, clause="raised"), f"schedule {list(sched)} (then {then}): {type(ex).__name__}: {str(ex)[:80]}; "
                                      f"all-at-once parse returns {len(want[integ])} items", rp)
                        continue
                    if got != want[integ]:
                        run.violation(dict(key, clause="result-differs"), f"schedule {list(sched)}: {len(got)} items vs {len(want[integ])} all at once", rp)
            if len(sched) <= 2:
                # the same schedule behind a BufferedReader that is NOT seekable (socket.makefile('rb'), a pipe opened buffered): what the outer buffer
                # has read ahead belongs to the stream as well
                for integ in ("generic", "rdflib"):
                    evaluations += 1
                    key = {"source": "non-seekable-buffered", "integ": integ, "first_read_lt_3": bool(sched) and sched[0] < 3 and len(data) >= 3,
                           "framing": "delimited" if delim else "single"}
                    rp = {"stream": label, "schedule": list(sched), "hex": data.hex()}
                    try:
                        got = impl.parse(integ, io.BufferedReader(framing.ChunkedRaw(data, sched, then=64), buffer_size=32), "flat")
                    except Exception as ex:  # noqa: BLE001
                        run.violation(dict(key, clause="raised"), f"BufferedReader over a pipe, schedule {list(sched)}: {type(ex).__name__}: {str(ex)[:80]}", rp)
                        continue
                    if got != want[integ]:
                        run.violation(dict(key, clause="result-differs"), f"BufferedReader over a pipe, schedule {list(sched)}: {len(got)} items vs {len(want[integ])} all at once", rp)
            if delim and len(sched) <= 2:
                evaluations += 1
                try:
                    gg = impl.parse("generic", framing.ChunkedRaw(data, sched, then=3), "grouped")
                    if gg != wantg:
                        run.violation({"source": "non-seekable", "integ": "generic", "clause": "grouped-differs",
                                       "first_read_lt_3": bool(sched) and sched[0] < 3}, f"grouped parse under schedule {list(sched)} differs", {"stream": label})
                except Exception as ex:  # noqa: BLE001
                    run.violation({"source": "non-seekable", "integ": "generic", "clause": "raised", "first_read_lt_3": bool(sched) and sched[0] < 3,
                                   "framing": "delimited"}, f"grouped, schedule {list(sched)}: {type(ex).__name__}", {"stream": label, "schedule": list(sched)})
        # buffered seekable sources, as the documented input contract requires
        with tempfile.TemporaryDirectory(dir=env.workdir()) as d:
            for kind, opener in framing.seekable_sources(data, d):
                for integ in ("generic", "rdflib"):
                    evaluations += 1
                    try:
                        with opener() as src:
                            got = impl.parse(integ, src, "flat")
                        if got != want[integ]:
                            run.violation({"source": kind, "integ": integ, "clause": "result-differs"}, f"{kind}: {len(got)} vs {len(want[integ])} items", {"stream": label})
                    except Exception as ex:  # noqa: BLE001
                        run.violation({"source": kind, "integ": integ, "clause": "raised"}, f"{kind}: {type(ex).__name__}: {str(ex)[:100]}", {"stream": label})
        # a real operating-system socket (socketpair), read through makefile() buffered and raw: the kernel decides the read sizes
        if len(data) <= 32768:
            from .. import usage  # noqa: PLC0415

            for kind in ("socket-makefile", "socket-makefile-unbuffered"):
                for integ in ("generic", "rdflib"):
                    evaluations += 1
                    src, cleanup = usage.open_source(kind, data, "")
                    try:
                        got = impl.parse(integ, src, "flat")
                        if got != want[integ]:
                            run.violation({"source": kind, "integ": integ, "clause": "result-differs"}, f"{kind}: {len(got)} vs {len(want[integ])} items", {"stream": label, "hex": data.hex()})
                    except Exception as ex:  # noqa: BLE001
                        run.violation({"source": kind, "integ": integ, "clause": "raised"}, f"{kind}: {type(ex).__name__}: {str(ex)[:100]}", {"stream": label, "hex": data.hex()})
                    finally:
                        cleanup()
        if len(samples) < 3:
            samples.append({"stream": label, "bytes": len(data), "schedules": len(sched_list), "example": list(sched_list[len(sched_list) // 3])})
    return run.finish({
        "states": states, "transitions": trans, "traces_validated_against_impl": evaluations, "samples": samples, "exhaustive": False,
        "model_shapes": len(shapes), "schedules": len(sched_list), "real_streams": len(streams),
        "model_note": "PyFraming with PeekOnce=FALSE (a reader that waits for 3 bytes) satisfies ChunkingIrrelevant for ALL schedules over chunks {1,2,3,5,rest}; "
                      f"with PeekOnce=TRUE (BufferedReader.peek as used) TLC's runs end badly exactly when the first raw read is one of {sorted(predicted_bad)}",
        "explanation": "TLC explores every schedule of short reads (sizes 1,2,3,5,rest) of spec/PyFraming.tla over concrete small streams; every schedule prefix is replayed on a "
                       "non-seekable RawIOBase double in front of parse_jelly_flat / parse_jelly_grouped of both integrations on real streams, continued with reads of 1, 7 or unlimited bytes; "
                       "BytesIO, BufferedReader (default and 16-byte buffer) and gzip sources are compared with the all-at-once parse",
    })
