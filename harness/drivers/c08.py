"""C08 -- delimited vs non-delimited framing is always detected correctly."""
from __future__ import annotations

import io
import json

from .. import env, impl, report, tlc, wire

env.import_pyjelly()


def main(tier: str) -> int:
    run = report.Run("C08", "model_checking", tier)
    cfg = ("INIT HInit\nNEXT HNext\nCONSTANTS Delimited = TRUE FrameLens <- FL0 FirstRowLen = 2 CutAt <- NoCut Chunks <- AllChunks "
           "PeekOnce = TRUE ReadChunk = 4 HistReads = 0 HMax = 300\nINVARIANT Detected\nINVARIANT SameLayout\nINVARIANT PrintHeader\nCHECK_DEADLOCK FALSE\n")
    r = tlc.run("MCFraming", cfg, workers=1, timeout=900)
    if r.violated or not r.ok:
        env.machinery_failure(f"C08: PyHint {r.violated or r.errors[:2]} -- the truth table in the MODEL misclassifies a header (prediction to be replayed)")
    headers = {}
    for p in r.printed("HEADER"):
        d = json.loads(p)
        headers[(d["m"], tuple(d["h"]))] = None
    if len(headers) < 300:
        env.machinery_failure(f"C08: only {len(headers)} distinct headers from TLC")
    from pyjelly.parse.ioutils import delimited_jelly_hint  # noqa: PLC0415

    for (mode, h) in headers:
        got = delimited_jelly_hint(bytes(h))
        if got != mode:
            run.violation({"clause": "header-misclassified", "first_byte_is_0A": h[0] == 10, "second_byte_is_0A": h[1] == 10},
                          f"a {'delimited' if mode else 'non-delimited'} stream can start with {bytes(h).hex()} but the detector says "
                          f"{'delimited' if got else 'non-delimited'}", {"header": list(h), "mode": mode})
    # real streams from the real writers, both modes, hitting exact frame / options-row lengths
    pairs = set()
    streams = 0
    st = (("iri", "http://e/s"), ("iri", "http://e/p"), ("lit", "v", "", ""))
    names = ["", "n", "ab", "abc", "abcd", "abcde", "abcdef", "abcdefg", "x" * 9, "x" * 20, "x" * 120, "x" * 130]
    presets = [(8, 0, 0), (8, 1, 0), (8, 1, 1), (4000, 150, 32), (128, 0, 0)]
    for preset in presets:
        for name in (names if tier == "thorough" else names[:9]):
            for nst in (0, 1, 3):
                for lt in (1, 0, 11):       # 11 = FLAT_TRIPLES again, this time as a version-2 stream (namespace declarations on)
                    nsd = lt == 11
                    lt = 1 if nsd else lt
                    outs = {}
                    for delimited in (True, False):
                        cfg_ = impl.default_cfg(integ="generic", entry="stream_frames", sclass="triple", ltype=lt, delimited=delimited,
                                                preset=preset, name=name, frame_size=(1 if nst == 3 else 250), gen=False, star=False, nsdecl=nsd)
                        stmts = [st[:2] + (("lit", f"v{i}", "", ""),) for i in range(nst)]
                        try:
                            data = impl.serialize(cfg_, stmts)
                        except Exception as ex:  # noqa: BLE001
                            run.violation({"clause": "serializer-raised", "delimited": delimited}, f"{type(ex).__name__}: {ex}", {"cfg": cfg_})
                            continue
                        if not delimited and nst == 3:
                            pass
                        streams += 1
                        frames = wire.dec_stream(data, delimited=delimited)
                        f = len(wire.enc_frame(frames[0]))
                        rlen = len(wire.enc_row(frames[0]["rows"][0]))
                        pairs.add((delimited, f if f < 300 else 300, rlen))
                        from pyjelly.parse.ioutils import get_options_and_frames  # noqa: PLC0415

                        key = {"clause": "stream-misclassified", "delimited": delimited, "first_frame_len_is_10": f == 10, "options_row_len_is_10": rlen - 2 == 10}
                        rp = {"cfg": cfg_, "hex": data[:40].hex(), "first_frame_len": f, "first_row_len": rlen}
                        try:
                            po, _ = get_options_and_frames(io.BytesIO(data))
                            if po.params.delimited != delimited:
                                run.violation(key, f"written {'delimited' if delimited else 'non-delimited'}, detected otherwise (first bytes {data[:3].hex()})", rp)
                            outs[delimited] = impl.parse("generic", data, "flat")
                        except Exception as ex:  # noqa: BLE001
                            run.violation(dict(key, clause="parse-raised"), f"{type(ex).__name__}: {ex} (first bytes {data[:3].hex()})", rp)
                    if nst == 1 and lt == 1 and name in ("", "abcdef"):
                        import tempfile  # noqa: PLC0415
                        from .. import framing  # noqa: PLC0415

                        for delimited, want_ in outs.items():
                            cfg_ = impl.default_cfg(integ="generic", entry="stream_frames", sclass="triple", ltype=lt, delimited=delimited, preset=preset,
                                                    name=name, frame_size=250, gen=False, star=False)
                            data = impl.serialize(cfg_, [st[:2] + (("lit", "v0", "", ""),)])
                            with tempfile.TemporaryDirectory(dir=env.workdir()) as d_:
                                for kind, opener in framing.seekable_sources(data, d_):
                                    streams += 1
                                    try:
                                        with opener() as src:
                                            got_ = impl.parse("generic", src, "flat")
                                        if got_ != want_:
                                            run.violation({"clause": "source-changes-result", "source": kind, "delimited": delimited}, f"{kind}: parsed differently", {"cfg": cfg_})
                                    except Exception as ex:  # noqa: BLE001
                                        run.violation({"clause": "parse-raised", "source": kind, "delimited": delimited},
                                                      f"{kind}: {type(ex).__name__}: {str(ex)[:80]} (stream written {'delimited' if delimited else 'non-delimited'})", {"cfg": cfg_})
                    if len(outs) == 2 and outs[True] != outs[False]:
                        run.violation({"clause": "modes-parse-differently"}, "same content written in both modes parses to different results", {"preset": preset, "name": name})
    tens = sorted(p for p in pairs if p[1] == 10 or p[2] - 2 == 10)
    return run.finish({
        "states": r.distinct, "transitions": r.generated, "traces_validated_against_impl": len(headers) + streams,
        "samples": [{"mode_delimited": m, "header": list(h)} for (m, h) in list(headers)[:3]] + [{"real_streams_with_length_10": tens[:6]}],
        "exhaustive": True, "distinct_headers": len(headers), "real_streams": streams, "real_length_pairs": len(pairs),
        "explanation": "spec/PyHint.tla (byte layout of PyFraming): for every (mode, first-frame length 0..300 + varint boundaries, first-row length) the code's truth table "
                       "returns the mode (TLC, exhaustive); every distinct 3-byte header is fed to the real delimited_jelly_hint; real streams from the real writers in both modes "
                       "(options rows and frames of every small length incl. 10) are detected and parsed to equal results",
    })
