"""C01 -- generic API round trip is lossless and order-preserving."""
from __future__ import annotations

from .. import campaign, env, report, terms, universes as U
from .common import slices_summary, counterexample_note


def main(tier: str) -> int:
    run = report.Run("C01", "model_checking", tier)
    seed = env.seed()
    slices = U.QUICK_SLICES if tier == "quick" else U.THOROUGH_SLICES
    res = campaign.run_slices(slices, timeout=1500 if tier == "thorough" else 400)
    states, trans, cov = slices_summary(run, res, "C01")
    # state-graph comparison at call granularity: every reachable idle state x every public call, on real Stream objects; TLC judges
    # each real edge twice: the Tier-1 inductive step on the real rows (a failure is a VIOLATION with the history that reaches the state)
    # and equality with PyWriter (a difference is MODEL-DRIFT)
    from .. import writergraph as wg  # noqa: PLC0415

    graph = {}
    # slice -> longest graph body walked per graph() call (None: not a GRAPHS slice)
    plan = {"flow2": None, "nameq": None, "dtq": None, "ns": None, "flow3g": 1, "wg-c18pq": None, "wg-c18d": None, "wg-c18g": 1} if tier == "quick" else \
           {"flow2": None, "nameq": None, "dtq": None, "ns": None, "flow3g": 2, "pfx": None, "quads": None, "qt": None, "graphs": 1,
            "flow1": None, "flow1q": None, "wg-c18p": None, "wg-c18pq": None, "wg-c18d": None, "wg-c18g": 2, "c20-small": None}
    for name, body_max in plan.items():
        st_, gst = wg.compare_slice(run, name, wg.slice_consts(name), body_max)
        if st_ is None:
            break
        graph[name] = st_
        states += gst["states"]
        trans += gst["transitions"]
    cases, stats = campaign.writer_campaign(tier, seed, parse_entries=("flat", "to_graph"))
    cases += campaign.empty_sequence_cases("generic")       # "any sequence" includes the empty one
    # one SerializerOptions object used for two streams that are written alternately, statement by statement (an application-wide options constant):
    # each file must hold exactly its own statements
    import io  # noqa: PLC0415
    from .. import impl, wire  # noqa: PLC0415

    I_ = lambda x: ("iri", x)  # noqa: E731
    for fs in (250, 3):
        for quads in (False, True):
            opts = impl.make_options(impl.default_cfg(integ="generic", sclass=("quad" if quads else "triple"), ltype=(2 if quads else 1), frame_size=fs, preset=(8, 3, 2)))
            two = []
            for k in range(2):
                st_ = impl.make_stream(impl.default_cfg(integ="generic", sclass=("quad" if quads else "triple")), opts)
                st_.enroll()
                two.append({"stream": st_, "out": io.BytesIO(), "stmts": [(I_(f"http://f{k}.example/s{j}"), I_(f"http://f{k}.example/p"), ("lit", f"{k}-{j}", "", ""))
                                                                         + ((I_(f"http://f{k}.example/g"),) if quads else ()) for j in range(7)]})
            exc = None
            try:
                for j in range(7):
                    for w in two:
                        tt = [terms.to_generic(t) for t in w["stmts"][j]]
                        fr = w["stream"].quad(tt) if quads else w["stream"].triple(tt)
                        if fr is not None:
                            impl.write_delimited(fr, w["out"])
                for w in two:
                    last = w["stream"].flow.to_stream_frame()
                    if last is not None:
                        impl.write_delimited(last, w["out"])
            except Exception as ex:  # noqa: BLE001
                exc = f"{type(ex).__name__}: {ex}"
            for k, w in enumerate(two):
                case = campaign.Case({"universe": "shared-options-object", "entry": "stepwise-two-streams", "sub": "none", "delimited": True, "frame_size": fs, "beh": k}, w["stmts"])
                case.replay = {"statements": w["stmts"], "frame_size": fs, "other_stream_written_alternately": True}
                case.data, case.exc = (w["out"].getvalue() if exc is None else None), exc
                if case.data:
                    for pe in ("flat",):
                        case.back[pe] = campaign._safe_parse("generic", case.data, pe)
                cases.append(case)
    judged = 0
    samples = []
    for case in cases:
        # namespace declarations are C14's subject: C01 compares the statements only
        want = [terms.norm_item(x) for x in case.items if x[0] != "ns"]
        if case.exc and case.data is None:
            run.violation({"clause": "serializer-raised", **case.key}, f"serializer raised on an input inside C01's precondition: {case.exc}",
                          case.replay)
            continue
        if case.drift:
            run.model_drift(f"{case.key}: rows differ from PyWriter at op {case.drift['op']}")
        for pe, back in case.back.items():
            if isinstance(back, str):
                run.violation({"clause": "parse-back-raised", "parse": pe, **case.key}, f"parsing pyjelly's own output raised {back}", case.replay)
            else:
                got = [terms.norm_item(x) for x in back if x[0] != "ns"]
                if got != want:
                    k = next((i for i, (a, b) in enumerate(zip(got, want)) if a != b), min(len(got), len(want)))
                    run.violation({"clause": "round-trip-differs", "parse": pe, **case.key},
                                  f"round trip differs at item {k}: wrote {want[k] if k < len(want) else None!r}, read {got[k] if k < len(got) else None!r} "
                                  f"(lengths {len(want)}/{len(got)})", case.replay)
        if case.verdict is not None:
            judged += 1
            if case.verdict["verdict"] != "ok":
                run.violation({"clause": "tier1:" + case.verdict["verdict"], **case.key},
                              f"independent decoder (TLC, JellyReader): {case.verdict['verdict']} at row {case.verdict['at']}", case.replay)
        if len(samples) < 3 and case.items:
            samples.append({"key": case.key, "first_items": [repr(x) for x in case.items[:2]], "bytes": len(case.data or b"")})
    from .. import usage as _usage  # noqa: PLC0415

    usage_cov = _usage.write_lattice(run, "generic")
    return run.finish({
        "usage_lattice": usage_cov,
        "states": states, "transitions": trans, "traces_validated_against_impl": judged,
        "samples": samples, "exhaustive": False,
        "slices": cov, "simulation": stats["sim"], "judge": stats["judge"],
        "cases": len(cases), "state_graph_comparison": graph,
        "explanation": "state-graph comparison: every reachable idle state x every statement of small slices walked on real Stream objects, the state sets compared with TLC's and "
                       "every real transition re-executed by TLC on PyWriter (TraceWriter: same rows, same successor, Good); exhaustive TLC closure of PyWriter o JellyReader on slice universes; simulated behaviours replayed "
                       "op by op into real Streams (rows compared with the model) and through whole-sequence entry points; "
                       "bytes judged by TLC (TraceReader) and parsed back with parse_jelly_flat / parse_jelly_to_graph",
    })
