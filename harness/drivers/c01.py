"""C01 -- generic API round trip is lossless and order-preserving."""
from __future__ import annotations

from .. import campaign, env, report, terms, universes as U
from .common import slices_summary, counterexample_note


def main(tier: str) -> int:
    run = report.Run("C01", "model_checking", tier)
    seed = env.seed()
    slices = U.QUICK_SLICES if tier == "quick" else U.THOROUGH_SLICES
    res = campaign.run_slices(slices, timeout=1500 if tier == "thorough" else 400)
    states, trans, cov = slices_summary(run, res, "C01")
    # state-graph comparison at statement granularity: every reachable idle state x every statement, on real Stream objects
    from .. import writergraph as wg, writer as _w  # noqa: PLC0415

    graph = {}
    # slice -> longest graph body walked per graph() call (None: not a GRAPHS slice)
    plan = {"flow2": None, "nameq": None, "dtq": None, "ns": None, "flow3g": 1} if tier == "quick" else \
           {"flow2": None, "nameq": None, "dtq": None, "ns": None, "flow3g": 2, "pfx": None, "quads": None, "qt": None, "graphs": 1,
            "flow1": None, "flow1q": None, "wg-c18p": None, "wg-c18pq": None, "wg-c18d": None, "c20-small": None}
    extra = dict(U.WG, **U.C20)
    for name, body_max in plan.items():
        base = slices[name] if name in slices else U.THOROUGH_SLICES[name] if name in U.THOROUGH_SLICES else extra[name]
        c = dict(base, CheckFits=False, AllowReject=True)   # the code's own (elision-aware) refusal; a refused call leaves a failed stream
        idle, pools, gr = wg.model_idle_states(c)
        idle = {k for k in idle if '"gcur":["none"]' in k}   # a public call starts and ends with every graph closed
        try:
            real_idle, trans_ = wg.walk(c, pools, body_max=body_max or 0)
        except AttributeError as ex:       # the projection reads encoder internals; renamed internals degrade this Tier-2 comparison only
            run.model_drift(f"state projection of Stream/TermEncoder unavailable ({ex}): state-graph comparison skipped")
            break
        judged_, gst = wg.judge_transitions(c, trans_)
        mism = refused = 0
        for tr in trans_:
            o = judged_.get(tr["id"])
            refused += "failed" in tr["to"]
            if o is None:
                mism += 1
                if mism <= 2:
                    run.model_drift(f"slice {name}: real call {tr['ops']} from a reachable state is not a behaviour of PyWriter")
                continue
            if o["bad"]:
                env.machinery_failure(f"C01: PyWriter's own composite clause {o['bad']} fails on a call re-executed from a real state ({name})")
            mrows = [x for op_rows in o["rows"] for x in op_rows]
            if (wg.canon([_w.norm_row(x) for x in mrows]) != wg.canon([_w.norm_row(x) for x in tr["rows"]]) or wg.canon(o["to"]) != wg.canon(tr["to"])):
                mism += 1
                if mism <= 2:
                    run.model_drift(f"slice {name}: call {tr['ops']}: rows or successor state differ between PyWriter and the real Stream "
                                    f"(model -> {str(o['to'])[:80]}, real -> {str(tr['to'])[:80]})")
        same = (real_idle <= idle) if body_max is not None else (idle == real_idle)
        if not same:
            run.model_drift(f"slice {name}: real Streams reach {len(real_idle)} idle states, PyWriter {len(idle)}")
        graph[name] = {"model_idle_states": len(idle), "real_idle_states": len(real_idle), "same_state_set": idle == real_idle,
                       "real_calls": len(trans_), "of_which_refused": refused, "calls_equal_to_model": len(trans_) - mism}
        states += gst["states"]
        trans += gst["transitions"]
    cases, stats = campaign.writer_campaign(tier, seed, parse_entries=("flat", "to_graph"))
    judged = 0
    samples = []
    for case in cases:
        # namespace declarations are C14's subject: C01 compares the statements only
        want = [terms.norm_item(x) for x in case.items if x[0] != "ns"]
        if case.exc and case.data is None:
            run.violation({"clause": "serializer-raised", **case.key}, f"serializer raised on an input inside C01's precondition: {case.exc}",
                          case.replay)
            continue
        if case.drift:
            run.model_drift(f"{case.key}: rows differ from PyWriter at op {case.drift['op']}")
        for pe, back in case.back.items():
            if isinstance(back, str):
                run.violation({"clause": "parse-back-raised", "parse": pe, **case.key}, f"parsing pyjelly's own output raised {back}", case.replay)
            else:
                got = [terms.norm_item(x) for x in back if x[0] != "ns"]
                if got != want:
                    k = next((i for i, (a, b) in enumerate(zip(got, want)) if a != b), min(len(got), len(want)))
                    run.violation({"clause": "round-trip-differs", "parse": pe, **case.key},
                                  f"round trip differs at item {k}: wrote {want[k] if k < len(want) else None!r}, read {got[k] if k < len(got) else None!r} "
                                  f"(lengths {len(want)}/{len(got)})", case.replay)
        if case.verdict is not None:
            judged += 1
            if case.verdict["verdict"] != "ok":
                run.violation({"clause": "tier1:" + case.verdict["verdict"], **case.key},
                              f"independent decoder (TLC, JellyReader): {case.verdict['verdict']} at row {case.verdict['at']}", case.replay)
        if len(samples) < 3 and case.items:
            samples.append({"key": case.key, "first_items": [repr(x) for x in case.items[:2]], "bytes": len(case.data or b"")})
    return run.finish({
        "states": states, "transitions": trans, "traces_validated_against_impl": judged,
        "samples": samples, "exhaustive": False,
        "slices": cov, "simulation": stats["sim"], "judge": stats["judge"],
        "cases": len(cases), "state_graph_comparison": graph,
        "explanation": "state-graph comparison: every reachable idle state x every statement of small slices walked on real Stream objects, the state sets compared with TLC's and "
                       "every real transition re-executed by TLC on PyWriter (TraceWriter: same rows, same successor, Good); exhaustive TLC closure of PyWriter o JellyReader on slice universes; simulated behaviours replayed "
                       "op by op into real Streams (rows compared with the model) and through whole-sequence entry points; "
                       "bytes judged by TLC (TraceReader) and parsed back with parse_jelly_flat / parse_jelly_to_graph",
    })
