"""C01 -- generic API round trip is lossless and order-preserving."""
from __future__ import annotations

from .. import campaign, env, report, terms, universes as U
from .common import slices_summary, counterexample_note


def main(tier: str) -> int:
    run = report.Run("C01", "model_checking", tier)
    seed = env.seed()
    slices = U.QUICK_SLICES if tier == "quick" else U.THOROUGH_SLICES
    res = campaign.run_slices(slices, timeout=1500 if tier == "thorough" else 400)
    states, trans, cov = slices_summary(run, res, "C01")
    # state-graph comparison at call granularity: every reachable idle state x every public call, on real Stream objects; TLC judges
    # each real edge twice: the Tier-1 inductive step on the real rows (a failure is a VIOLATION with the history that reaches the state)
    # and equality with PyWriter (a difference is MODEL-DRIFT)
    from .. import writergraph as wg  # noqa: PLC0415

    graph = {}
    # slice -> longest graph body walked per graph() call (None: not a GRAPHS slice)
    plan = {"flow2": None, "nameq": None, "dtq": None, "ns": None, "flow3g": 1, "wg-c18pq": None, "wg-c18d": None, "wg-c18g": 1} if tier == "quick" else \
           {"flow2": None, "nameq": None, "dtq": None, "ns": None, "flow3g": 2, "pfx": None, "quads": None, "qt": None, "graphs": 1,
            "flow1": None, "flow1q": None, "wg-c18p": None, "wg-c18pq": None, "wg-c18d": None, "wg-c18g": 2, "c20-small": None}
    for name, body_max in plan.items():
        st_, gst = wg.compare_slice(run, name, wg.slice_consts(name), body_max)
        if st_ is None:
            break
        graph[name] = st_
        states += gst["states"]
        trans += gst["transitions"]
    cases, stats = campaign.writer_campaign(tier, seed, parse_entries=("flat", "to_graph"))
    cases += campaign.empty_sequence_cases("generic")       # "any sequence" includes the empty one
    judged = 0
    samples = []
    for case in cases:
        # namespace declarations are C14's subject: C01 compares the statements only
        want = [terms.norm_item(x) for x in case.items if x[0] != "ns"]
        if case.exc and case.data is None:
            run.violation({"clause": "serializer-raised", **case.key}, f"serializer raised on an input inside C01's precondition: {case.exc}",
                          case.replay)
            continue
        if case.drift:
            run.model_drift(f"{case.key}: rows differ from PyWriter at op {case.drift['op']}")
        for pe, back in case.back.items():
            if isinstance(back, str):
                run.violation({"clause": "parse-back-raised", "parse": pe, **case.key}, f"parsing pyjelly's own output raised {back}", case.replay)
            else:
                got = [terms.norm_item(x) for x in back if x[0] != "ns"]
                if got != want:
                    k = next((i for i, (a, b) in enumerate(zip(got, want)) if a != b), min(len(got), len(want)))
                    run.violation({"clause": "round-trip-differs", "parse": pe, **case.key},
                                  f"round trip differs at item {k}: wrote {want[k] if k < len(want) else None!r}, read {got[k] if k < len(got) else None!r} "
                                  f"(lengths {len(want)}/{len(got)})", case.replay)
        if case.verdict is not None:
            judged += 1
            if case.verdict["verdict"] != "ok":
                run.violation({"clause": "tier1:" + case.verdict["verdict"], **case.key},
                              f"independent decoder (TLC, JellyReader): {case.verdict['verdict']} at row {case.verdict['at']}", case.replay)
        if len(samples) < 3 and case.items:
            samples.append({"key": case.key, "first_items": [repr(x) for x in case.items[:2]], "bytes": len(case.data or b"")})
    return run.finish({
        "states": states, "transitions": trans, "traces_validated_against_impl": judged,
        "samples": samples, "exhaustive": False,
        "slices": cov, "simulation": stats["sim"], "judge": stats["judge"],
        "cases": len(cases), "state_graph_comparison": graph,
        "explanation": "state-graph comparison: every reachable idle state x every statement of small slices walked on real Stream objects, the state sets compared with TLC's and "
                       "every real transition re-executed by TLC on PyWriter (TraceWriter: same rows, same successor, Good); exhaustive TLC closure of PyWriter o JellyReader on slice universes; simulated behaviours replayed "
                       "op by op into real Streams (rows compared with the model) and through whole-sequence entry points; "
                       "bytes judged by TLC (TraceReader) and parsed back with parse_jelly_flat / parse_jelly_to_graph",
    })
