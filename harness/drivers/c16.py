"""C16 -- spec-violating streams are rejected, never turned into fabricated data."""
from __future__ import annotations

import io
from concurrent.futures import ThreadPoolExecutor

from .. import env, impl, producer, report, terms, wire
from .c04 import rdf_norm

HEADER = {"missing-options-row": "F10", "unsupported-version": "F11", "unsupported-stream-type": "F12",
          "repeated-term-without-previous": "F6"}


def drain(integ: str, data, source=None):
    """Drain parse_jelly_flat item by item; returns (items yielded, exception or None). `source`: a ready-made file object instead of BytesIO(data)."""
    if integ == "generic":
        from pyjelly.integrations.generic import parse as mod  # noqa: PLC0415
        conv = terms.item_from_generic
    else:
        from pyjelly.integrations.rdflib import parse as mod  # noqa: PLC0415
        conv = terms.item_from_rdflib
    got = []
    try:
        for x in mod.parse_jelly_flat(source if source is not None else io.BytesIO(data)):
            got.append(conv(x))
    except Exception as ex:  # noqa: BLE001
        return got, f"{type(ex).__name__}: {str(ex)[:100]}"
    return got, None


def main(tier: str) -> int:
    run = report.Run("C16", "fault_enumeration", tier)
    seed = env.seed()
    cap = 12 if tier == "quick" else 150
    num = 60 if tier == "quick" else 500
    jobs = []
    for integ, rdf11 in (("generic", False), ("rdflib", True)):
        for name, c in producer.configs(rdf11=rdf11):
            for at in ((0, 8, 20) if tier == "quick" else (0, 3, 6, 10, 15, 20, 30, 45)):
                jobs.append((integ, name, dict(c, Faults="BodyFaults", FaultAt=at), at, num))
            for cls, f in HEADER.items():
                jobs.append((integ, name, dict(c, Faults=f, FaultAt=0), 0, 12))

    def sim(job):
        integ, name, c, at, n = job
        return job, producer.simulate(c, num=n, seed=seed + 16 + at, hist_len=max(30, at + 12))

    from .. import readergraph as rg  # noqa: PLC0415

    graph_unis = ["graphs-datatype", "triples-names", "triples-star-s", "triples-star-o"] + (["quads-prefix"] if tier == "thorough" else [])
    with ThreadPoolExecutor(12) as ex:
        graphs_f = [ex.submit(rg.explore, u) for u in graph_unis]
        sims = list(ex.map(sim, jobs))
        graphs = [f.result() for f in graphs_f]
    # (i) every reachable reader state x every catalogued illegal next row, on a real Decoder
    graph_stats = {}
    graph_faults = 0
    for u, (edges, faults_at, gr) in zip(graph_unis, graphs):
        try:
            _probe = rg.project(rg.make_decoder({'r': 'opt', 'name': '', 'pt': 1, 'gen': False, 'star': False, 'mn': 8, 'mp': 0, 'md': 0, 'lt': 0, 'ver': 1}), (1, 0, 0))
        except AttributeError as ex:
            run.model_drift(f'state projection of Decoder unavailable ({ex}): reader state-graph comparison skipped')
            break
        for integ_ in (("generic",) if u in rg.RDF_STAR else ("generic", "rdflib")):
            st = rg.walk(u, edges, faults_at, integ=integ_,
                         on_violation=lambda clause, what, rp, u=u, integ_=integ_: (run.violation(
                             {"clause": clause, "binding": "reader-state-graph", "universe": u, "integ": integ_, "class": rp.get("class", "")}, what, rp)
                             if clause == "invalid-row-accepted" else None),
                         on_drift=lambda w: None)
            graph_stats[u + ("" if integ_ == "generic" else "/rdflib")] = dict(st, tlc_states=gr.distinct)
            graph_faults += st["fault_rows_replayed"]
    taken: dict = {}
    evaluations = 0
    distinct = set()
    gen_states = 0
    samples = []
    per_class: dict = {}
    for (integ, name, c, at, n), (behs, r) in sims:
        gen_states += r.generated
        for beh in behs:
            cls = beh["violated"]
            if not cls:
                continue
            k = (integ, name, cls, at)
            if taken.get(k, 0) >= cap:
                continue
            taken[k] = taken.get(k, 0) + 1
            rows = beh["rows"]
            frames = producer.frames_of(rows)
            den = [producer.den_item(d) for d in beh["den"]]
            variants = [(True, producer.to_bytes(frames, True))]
            if len(frames) == 1 and taken[k] % 3 == 0:
                variants.append((False, producer.to_bytes(frames, False)))
            for delimited, data in variants:
                evaluations += 1
                distinct.add((integ, c["PType"], cls, len(rows), str(rows[-1])))
                per_class[cls] = per_class.get(cls, 0) + 1
                got, exc = drain(integ, data)
                key = {"class": cls, "integ": integ, "ptype": c["PType"]}
                rp = {"config": name, "rows": rows, "offending_row": rows[-1], "position": len(rows), "denotes_before": beh["den"],
                      "delimited": delimited, "hex": data.hex(), "yielded": [repr(x) for x in got], "exception": exc}
                norm = rdf_norm if integ == "rdflib" else terms.norm_item
                want = [norm(x) for x in den]
                gotn = [norm(x) for x in got]
                if exc is None:
                    extra = gotn[len(want):]
                    run.violation(dict(key, clause="accepted"),
                                  f"stream with a {cls} at row {len(rows)} was parsed without any exception"
                                  + (f"; the offending row was delivered as {extra[0]!r}" if extra else ""), rp)
                elif gotn != want[:len(gotn)]:
                    run.violation(dict(key, clause="fabricated-before-raising"),
                                  f"before raising, the parser yielded something the rows before the offending row do not denote", rp)
                if len(samples) < 4 and exc and taken[k] == 1 and cls not in [s["class"] for s in samples]:
                    samples.append({"class": cls, "offending_row": rows[-1], "position": len(rows), "exception": exc})
    # streams without any options row: nothing at all, only empty frames (with and without metadata) -- Tier 1: R1-no-options-row at the end of the stream
    _bn = {"t": "bn", "v": "b"}
    _opt = {"r": "opt", "name": "", "pt": 1, "gen": False, "star": False, "mn": 8, "mp": 0, "md": 0, "lt": 1, "ver": 1}
    _tr = {"r": "triple", "s": _bn, "p": _bn, "o": _bn}
    degenerate = {"zero-bytes": b"",
                  # the first non-empty frame has no options row; a LATER frame starts with one (R1: the options row must be the first row of the stream)
                  "statement-frame-before-options-frame": wire.enc_delimited([{"rows": [_tr]}, {"rows": [_opt, _tr]}]),
                  "entry-frame-before-options-frame": wire.enc_delimited([{"rows": [{"r": "name", "id": 1, "v": "x"}]}, {"rows": [_opt, _tr]}]),
                  "empty-then-statement-frame-before-options-frame": wire.enc_delimited([{"rows": []}, {"rows": [_tr]}, {"rows": [_opt, _tr]}]), "one-empty-frame": wire.enc_delimited([{"rows": []}]), "three-empty-frames": wire.enc_delimited([{"rows": []}] * 3),
                  "empty-frames-with-metadata": wire.enc_delimited([{"rows": [], "meta": {"k": b"v"}}, {"rows": []}])}
    for label, data in degenerate.items():
        for integ in ("generic", "rdflib"):
            for entry in ("flat", "grouped", "to_graph"):
                evaluations += 1
                per_class["missing-options-row"] = per_class.get("missing-options-row", 0) + 1
                distinct.add((integ, 0, "no-options-row", label, entry))
                try:
                    got = impl.parse(integ, data, entry)
                    if entry == "grouped":
                        got = list(got)
                except Exception:  # noqa: BLE001
                    continue
                run.violation({"class": "missing-options-row", "clause": "accepted", "integ": integ, "ptype": 0, "degenerate": label, "parse": entry},
                              f"a stream that does not start with an options row ({label}) was parsed by {integ} {entry} without any exception: {str(got)[:80]}", {"hex": data.hex()})
    missing = [c for c in list(HEADER) + ["entry-id-beyond-size", "reference-beyond-size", "reference-to-unfilled-slot", "datatype-reference-zero",
                                          "datatype-reference-table-disabled", "repeated-term-in-quoted-triple",
                                          "row-kind-forbidden-by-physical-type", "triple-outside-graph"] if c not in per_class]
    if missing:
        env.machinery_failure(f"C16: fault classes never injected: {missing}")
    return run.finish({
        "evaluations": evaluations + graph_faults, "distinct_nontrivial": len(distinct) + graph_faults, "reader_state_graph": graph_stats,
        "rule": "(i) TLC closes JellyProducer in tiny universes and prints, for every reachable reader state, every catalogued illegal next row (confirmed invalid by the TLA+ reader); "
                "each is applied to a real Decoder brought into that state: it must raise. (ii) JellyProducer.Violate injects one catalogued violation (12 classes) after FaultAt rows of an otherwise arbitrary legal stream, and only rows "
                "the Tier-1 reader rejects AT THAT ROW qualify (confirmed invalid by the reference decoder); bytes by /verif's codec; parse_jelly_flat of both "
                "integrations drained item by item: an exception must be raised and everything yielded before must be the denotation of the earlier rows. "
                "distinct = (integration, physical type, class, position, offending row)",
        "samples": samples, "per_class": per_class, "tlc_states_generated": gen_states,
    })
