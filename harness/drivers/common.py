"""Helpers shared by the property drivers."""
from __future__ import annotations

from .. import env


def slices_summary(run, res: dict, pid: str):
    """Sum up exhaustive TLC runs; a failed invariant on the MODEL is a prediction, handled by the caller."""
    states = trans = 0
    cov = {}
    for k, r in res.items():
        states += r.distinct
        trans += r.generated
        ac = r.action_coverage()
        cov[k] = {"states": r.distinct, "transitions": r.generated, "depth": r.depth, "wall_s": round(r.wall, 1),
                  "actions": {a: ac[a][1] for a in ac if a in ("Enroll", "Namespace", "Begin", "SlotStep", "SlotReject", "Commit", "GraphBegin", "GraphEnd")}}
        if r.violated:
            env.machinery_failure(f"{pid}: TLC found {r.violated} violated on slice {k} of the MODEL; "
                                  f"a model counterexample is a prediction that must be replayed, not a verdict:\n"
                                  + counterexample_note(r))
        if not r.ok:
            env.machinery_failure(f"{pid}: TLC did not complete on slice {k}: {r.errors[:3]} rc={r.rc}\n" + "\n".join(r.out.splitlines()[-15:]))
        # non-vacuity: TLC's -coverage runs out of memory on these recursive specs (measured), so the guard is
        # a floor on the reachable state count and search depth instead of per-action counts
        if r.distinct < 200 or r.depth < 8:
            env.machinery_failure(f"{pid}: slice {k}: only {r.distinct} states / depth {r.depth} (vacuous run)")
    return states, trans, cov


def counterexample_note(r) -> str:
    lines = [s["action"] for s in r.counterexample()]
    return "\n".join(lines[:60])
