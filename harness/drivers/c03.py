"""C03 -- every emitted stream is valid Jelly for an independent decoder (TLC's JellyReader)."""
from __future__ import annotations

from .. import campaign, env, report, universes as U
from .common import slices_summary


def main(tier: str) -> int:
    run = report.Run("C03", "model_checking", tier)
    seed = env.seed()
    slices = U.QUICK_SLICES if tier == "quick" else U.THOROUGH_SLICES
    res = campaign.run_slices(slices, inv=("Good",), timeout=1500 if tier == "thorough" else 400)
    states, trans, cov = slices_summary(run, res, "C03")
    cases, stats = campaign.writer_campaign(tier, seed + 303, parse_entries=(), n_beh=60 if tier == "quick" else 500)
    # every stream the repository's own tests make pyjelly write (recorded from outside, validity judged by TLC)
    more, info = campaign.repo_test_traffic(tier, max_rows=(60_000 if tier == "quick" else 600_000))
    cases.extend(more)
    extra = {"repository_test_traffic": info}
    judged = 0
    samples = []
    clauses: dict = {}
    for case in cases:
        if case.data is None:
            if case.exc:
                run.violation({"clause": "serializer-raised", **case.key}, f"serializer raised: {case.exc}", case.replay)
            continue
        if case.verdict is None:
            continue
        judged += 1
        v = case.verdict["verdict"]
        clauses[v] = clauses.get(v, 0) + 1
        if v != "ok":
            run.violation({"clause": v, **case.key},
                          f"independent decoder rejects or disagrees: {v} at row {case.verdict['at']}", case.replay)
        if len(samples) < 3 or (len(samples) < 5 and case.key.get("source") == "repository-test-suite"):
            samples.append({"key": case.key, "verdict": case.verdict, "rows": sum(len(f["rows"]) for f in case.frames)})
    return run.finish({
        "states": states + stats["judge"].get("states", 0), "transitions": trans + stats["judge"].get("transitions", 0),
        "traces_validated_against_impl": judged, "samples": samples, "exhaustive": False,
        "verdict_histogram": clauses, "slices": cov, "simulation": stats["sim"], "judge": stats["judge"], **extra,
        "explanation": "every byte string written by the real serializer is decoded by harness/wire.py (no pyjelly, no protobuf) and "
                       "judged row by row by TLC against spec/JellyReader.tla (R1-R8) including equality of the denotation with the input",
    })
