"""C03 -- every emitted stream is valid Jelly for an independent decoder (TLC's JellyReader)."""
from __future__ import annotations

from .. import campaign, env, report, universes as U
from .common import slices_summary


def main(tier: str) -> int:
    run = report.Run("C03", "model_checking", tier)
    seed = env.seed()
    slices = U.QUICK_SLICES if tier == "quick" else U.THOROUGH_SLICES
    res = campaign.run_slices(slices, inv=("Good",), timeout=1500 if tier == "thorough" else 400)
    states, trans, cov = slices_summary(run, res, "C03")
    cases, stats = campaign.writer_campaign(tier, seed + 303, parse_entries=(), n_beh=60 if tier == "quick" else 500, rdflib_share=True)
    # the `version` a caller passes to StreamParameters must not produce namespace rows in a version-1 stream (both integrations, three types)
    from .. import impl, terms, tlc, wire  # noqa: PLC0415
    vtraces, vcases = [], []
    I_ = lambda x: ("iri", x)  # noqa: E731
    for integ in ("generic", "rdflib"):
        for sclass in ("triple", "quad", "graph"):
            for version in (1, 2):
                for nsdecl in (True, False):
                    st = [(I_("http://e/s"), I_("http://e/p"), ("lit", "v", "", ""))] if sclass == "triple" else [(I_("http://e/s"), I_("http://e/p"), ("lit", "v", "", ""), I_("http://g/1"))]
                    cfg = impl.default_cfg(integ=integ, entry=("stream_frames" if integ == "generic" else "graph_serialize"), sclass=sclass, ltype=(1 if sclass == "triple" else 2),
                                           nsdecl=nsdecl, version=version, gen=False, star=False, dataset=(sclass != "triple"))
                    c_ = campaign.Case({"universe": "version-parameter", "entry": cfg["entry"], "integ": integ, "sclass": sclass, "version_passed": version, "nsdecl": nsdecl}, [], mode="none")
                    c_.replay = {"cfg": cfg}
                    try:
                        c_.data = impl.serialize(cfg, st, [("ex", "http://e/"), ("", "http://other.example/ns#")])
                        c_.frames = wire.dec_stream(c_.data, delimited=True)
                        vtraces.append({"id": len(vcases), "rows": terms.jrows_of_frames(c_.frames), "mode": "none", "exp": []})
                        vcases.append(c_)
                    except Exception as ex:  # noqa: BLE001
                        c_.exc = f"{type(ex).__name__}: {ex}"
                        cases.append(c_)
    vv = tlc.judge(vtraces)
    vv.pop("__stats__")
    for i_, c_ in enumerate(vcases):
        c_.verdict = vv[i_]
        cases.append(c_)
    for integ in ("generic", "rdflib"):
        cases.extend(campaign.empty_sequence_cases(integ))       # an empty input must still give a valid (options-only) stream
    # a caller that catches the refusal of an over-sized statement and keeps writing: whatever reaches the output must still be a valid stream
    from .. import writer  # noqa: PLC0415
    ctr, ccases = [], []
    for uk in ("c18-prefix-2-t", "c18-prefix-2-q", "c18-datatype-1-t"):
        table, cu = U.c18_universes()[uk]
        behs, _r = writer.simulate(cu, num=(40 if tier == "quick" else 400), hist_len=5, seed=seed + 33)
        for bi, beh in enumerate(behs):
            if not any(op["op"] == "reject" for op in beh["hist"]):
                continue
            # the model stops at the refusal; the caller goes on with the statements written so far, once more (they share terms with the refused one)
            more = [op for op in beh["hist"] if op["op"] == "stmt"][:2]
            beh2 = {"bad": beh["bad"], "hist": beh["hist"] + more}
            res = writer.replay_stepwise(beh2, cu, writer.Subst(), integ=("rdflib" if (bi % 2 and table == "prefix") else "generic"))
            c_ = campaign.Case({"universe": uk, "entry": "stepwise-catch-and-continue", "beh": bi}, res["accepted"])
            c_.replay = {"consts": cu, "ops": [(op["op"], op.get("st")) for op in beh2["hist"]], "raised": res["rejected"], "accepted": res["accepted"]}
            c_.data = res["bytes"]
            try:
                c_.frames = wire.dec_stream(c_.data, delimited=True)
            except wire.WireError as ex:
                c_.verdict = {"verdict": f"W-wire-undecodable:{ex}", "at": 0, "n": 0, "aud": {}}
                cases.append(c_)
                continue
            ctr.append({"id": len(ccases), "rows": terms.jrows_of_frames(c_.frames), "mode": "seq", "prefix": True,
                        "exp": [terms.jitem(terms.norm_item(it)) for it in res["accepted"]]})
            ccases.append(c_)
    if ctr:
        cv = tlc.judge(ctr)
        cv.pop("__stats__")
        for i_, c_ in enumerate(ccases):
            c_.verdict = cv[i_]
            cases.append(c_)
    # every stream the repository's own tests make pyjelly write (recorded from outside, validity judged by TLC)
    more, info = campaign.repo_test_traffic(tier, max_rows=(60_000 if tier == "quick" else 600_000))
    cases.extend(more)
    extra = {"repository_test_traffic": info}
    judged = 0
    samples = []
    clauses: dict = {}
    for case in cases:
        if case.data is None:
            if case.exc:
                run.violation({"clause": "serializer-raised", **case.key}, f"serializer raised: {case.exc}", case.replay)
            continue
        if case.verdict is None:
            continue
        judged += 1
        v = case.verdict["verdict"]
        clauses[v] = clauses.get(v, 0) + 1
        if v != "ok":
            run.violation({"clause": v, **case.key},
                          f"independent decoder rejects or disagrees: {v} at row {case.verdict['at']}", case.replay)
        if len(samples) < 3 or (len(samples) < 5 and case.key.get("source") == "repository-test-suite"):
            samples.append({"key": case.key, "verdict": case.verdict, "rows": sum(len(f["rows"]) for f in case.frames)})
    return run.finish({
        "states": states + stats["judge"].get("states", 0), "transitions": trans + stats["judge"].get("transitions", 0),
        "traces_validated_against_impl": judged, "samples": samples, "exhaustive": False,
        "verdict_histogram": clauses, "slices": cov, "simulation": stats["sim"], "judge": stats["judge"], **extra,
        "explanation": "every byte string written by the real serializer is decoded by harness/wire.py (no pyjelly, no protobuf) and "
                       "judged row by row by TLC against spec/JellyReader.tla (R1-R8) including equality of the denotation with the input",
    })
