"""C20 -- a rejected statement never poisons the rest of the stream."""
from __future__ import annotations

import io
import itertools
from concurrent.futures import ThreadPoolExecutor

from .. import env, impl, report, terms, tlc, universes as U, wire, writer


def graphstream_scenarios(tier: str):
    """GraphStream driven graph by graph; one triple of one graph is unencodable (position x cause)."""
    I = lambda p, n: ("iri", p + n)  # noqa: E731
    good = [(I("a/", "x"), I("a/", "y"), I("b/", "x")), (I("a/", "x"), I("a/", "y"), ("lit", "l", "", "")),
            (I("b/", "y"), I("a/", "y"), I("b/", "x"))]
    causes = {
        "unsupported-term": lambda slot: tuple(("bad",) if i == slot else t for i, t in enumerate(good[0])),
        "typed-literal-no-datatype-table": lambda slot: tuple(("lit", "1", "", "d:a") if i == slot else t for i, t in enumerate(good[0])),
        "malformed-tuple": lambda slot: good[0][:slot],
        "nested": lambda slot: tuple(("qt", I("b/", "y"), I("a/", "x"), ("bad",)) if i == slot else t for i, t in enumerate(good[0])),
    }
    out = []
    for cause, mk in causes.items():
        for slot in range(3):
            if cause == "nested" and slot == 1:
                continue
            for pos in range(3):
                first = list(good[:pos]) + [mk(slot)] + list(good[pos:2])
                out.append({"cause": cause, "slot": "spo"[slot], "position": pos,
                            "graphs": [(I("g/", "1"), first), (("dg",), [good[0], good[2]]), (I("g/", "1"), [good[1]])]})
    return out


def stream_scenarios():
    """TripleStream / QuadStream statement by statement: the unencodable term at every slot, top level or nested in a quoted triple,
    with the slots before it repeated from the previous statement or fresh; the caller then carries on with statements that use
    the entries the rejected statement's earlier terms introduced."""
    I = lambda p, n: ("iri", p + n)  # noqa: E731
    first = (I("a/", "x"), I("a/", "y"), I("b/", "x"))
    new = (I("c/", "s"), I("d/", "p"), I("e/", "o"))
    bads = {"unsupported-term": ("bad",), "typed-literal-no-datatype-table": ("lit", "1", "", "d:a")}
    out = []
    for quad in (False, True):
        for cause, bad in bads.items():
            for slot in range(4 if quad else 3):
                for nested in ("no", "qt-second", "qt-third", "qt-deep"):
                    if nested != "no" and slot in (1, 3):
                        continue
                    for before in ("repeated", "fresh", "no-key"):
                        fresh_inner = (I("f/", "q1"), I("g/", "q2"))
                        if nested == "no":
                            term = bad
                        elif nested == "qt-second":
                            term = ("qt", fresh_inner[0], bad, fresh_inner[1])
                        elif nested == "qt-third":
                            term = ("qt", fresh_inner[0], fresh_inner[1], bad)
                        else:
                            term = ("qt", fresh_inner[0], fresh_inner[1], ("qt", I("h/", "q3"), I("a/", "y"), bad))
                        nokey = (("bn", "b1"), ("bn", "b2"), ("lit", "plain", "", ""))      # terms that touch no lookup table
                        base = list(first if before == "repeated" else new if before == "fresh" else nokey) + ([("dg",)] if quad else [])
                        st0 = tuple(list(first) + ([("dg",)] if quad else []))
                        rej = tuple(base[:slot] + [term] + base[slot + 1:])
                        good = [I("c/", "s"), I("d/", "p"), I("e/", "o"), ("dg",)]
                        carry = [tuple(base[:slot] + [good[slot]] + base[slot + 1:]),      # the rejected statement, repaired: earlier slots repeat exactly
                                 tuple([fresh_inner[0], I("d/", "p"), fresh_inner[1]] + ([I("h/", "q3")] if quad else [])),
                                 tuple(list(new) + ([("dg",)] if quad else [])),
                                 st0]
                        out.append({"stream": "QuadStream" if quad else "TripleStream", "cause": cause, "slot": "spog"[slot], "nested": nested,
                                    "before": before, "statements": [st0, rej] + carry})
        for cut in range(0, 4 if quad else 3):
            st0 = tuple(list(first) + ([("dg",)] if quad else []))
            out.append({"stream": "QuadStream" if quad else "TripleStream", "cause": "malformed-tuple", "slot": "spog"[cut], "nested": "no", "before": "fresh",
                        "statements": [st0, tuple(list(new) + ([("dg",)] if quad else []))[:cut], tuple(list(new) + ([I("c/", "s")] if quad else [])), st0]})
    return out


def run_stream_scenario(sc, carry_on="direct", integ="generic"):
    quad = sc["stream"] == "QuadStream"
    cfg = impl.default_cfg(integ=integ, sclass=("quad" if quad else "triple"), ltype=(2 if quad else 1), delimited=True, frame_size=10**6, preset=(16, 8, 0),
                           nsdecl=(carry_on == "declare-namespace"))
    stream = impl.make_stream(cfg)
    stream.enroll()
    frames, accepted, raised = [], [], []
    declared: list = []
    from pyjelly.integrations.generic import serialize as gser  # noqa: PLC0415

    for i, st in enumerate(sc["statements"]):
        tt = [writer.to_impl_term(t, integ) for t in st]
        if carry_on == "declare-namespace" and raised and not declared:
            # the caller carries on with a namespace declaration whose IRI shares the prefix / the whole IRI of terms the rejected statement had already encoded
            declared.append(True)
            for label, iri in (("c", "c/"), ("a", "a/"), ("whole", "c/s")):
                try:
                    stream.namespace_declaration(label, iri)
                    accepted.append(("ns", label, iri))
                except Exception as ex:  # noqa: BLE001
                    raised.append((i, type(ex).__name__))
        try:
            if carry_on == "enroll-again" and raised:
                stream.enroll()                       # idempotent by contract; the integrations call it at the start of every stream_frames()
            if carry_on == "stream_frames" and raised and len(tt) == (4 if quad else 3):
                gs_ = terms.generic_classes()
                for fr in gser.stream_frames(stream, (x for x in [(gs_.Quad if quad else gs_.Triple)(*tt)])):
                    frames.append(fr)
            else:
                fr = stream.quad(tt) if quad else stream.triple(tt)
                if fr:
                    frames.append(fr)
            accepted.append(tuple(st))
        except Exception as ex:  # noqa: BLE001
            raised.append((i, type(ex).__name__))
    last = stream.flow.to_stream_frame()
    if last:
        frames.append(last)
    out = io.BytesIO()
    for fr in frames:
        impl.write_delimited(fr, out)
    return out.getvalue(), accepted, raised


def run_graph_scenario(sc, integ="generic"):
    cfg = impl.default_cfg(integ=integ, sclass="graph", ltype=2, delimited=True, frame_size=10**6, preset=(8, 2, 0))
    stream = impl.make_stream(cfg)
    stream.enroll()
    frames, accepted, raised = [], [], []
    for gi, (g, triples) in enumerate(sc["graphs"]):
        pending = []

        def feed(triples=triples, g=g, pending=pending):
            for st in triples:
                pending.append(tuple(st) + (g,))
                yield [writer.to_impl_term(t, integ) for t in st]

        try:
            for fr in stream.graph(writer.to_impl_term(g, integ), feed()):
                frames.append(fr)
            accepted.extend(pending)
        except Exception as ex:  # noqa: BLE001
            accepted.extend(pending[:-1])
            raised.append((gi, type(ex).__name__))
    last = stream.flow.to_stream_frame()
    if last:
        frames.append(last)
    out = io.BytesIO()
    for fr in frames:
        impl.write_delimited(fr, out)
    return out.getvalue(), accepted, raised


def main(tier: str) -> int:
    run = report.Run("C20", "fault_enumeration", tier)
    seed = env.seed()
    n_beh = 250 if tier == "quick" else 3000
    subs = writer.substitutions(seed)

    def sim(k):
        return k, writer.simulate(U.C20[k], num=n_beh, hist_len=5, seed=seed + 20)

    def mc(job):
        k, poison = job
        return job, writer.model_check(dict(U.C20[k], PoisonOnReject=poison), ("Good", "TablesBounded"), timeout=600, workers=4)

    with ThreadPoolExecutor(8) as ex:
        sims_f = ex.map(sim, list(U.C20))
        mcs = dict(ex.map(mc, [(k, p) for k in U.C20 for p in (True, False)]))
        sims = dict(sims_f)
    model = {}
    for (k, poison), r in mcs.items():
        if poison:
            if r.violated or not r.ok:
                env.machinery_failure(f"C20: PyWriter ({k}) violates {r.violated or r.errors[:2]} although failed streams refuse further use")
            model[k] = {"states": r.distinct, "transitions": r.generated}
        elif "Good" not in r.violated:
            env.machinery_failure(f"C20: with the refusal guard removed from the model ({k}) TLC finds no violation: the invariant is vacuous")
    graph = {}
    if tier == "thorough":
        # every reachable state x every call of the small rejection universe on real Streams: a refused call leaves a failed stream and a valid prefix
        from .. import writergraph as wg  # noqa: PLC0415

        st_, _gst = wg.compare_slice(run, "c20-small", wg.slice_consts("c20-small"), None)
        if st_ is not None:
            graph["c20-small"] = st_
    cases, traces = [], []
    n_rejecting = 0
    distinct = set()
    for k, (behs, r) in sims.items():
        c = U.C20[k]
        for bi, beh in enumerate(behs):
            rej_ops = [(i, op) for i, op in enumerate(beh["hist"]) if op["op"] == "reject"]
            if not rej_ops:
                continue
            n_rejecting += 1
            sub = subs[bi % len(subs)]
            # the model stops at the rejection (the stream is failed); the caller carries on regardless
            # ... first of all with the rejected statement itself, its unencodable term replaced (the earlier slots repeat exactly)
            good_by_slot = [["iri", "a/", "x"], ["iri", "a/", "x"], ["iri", "b/", "x"], ["dg"]]
            st_r = rej_ops[0][1]["st"]
            arity = 4 if c["PType"] == 2 else 3
            completed = [t for t in st_r[:-1]] + good_by_slot[len(st_r) - 1:arity]
            carry = [{"op": "stmt", "st": completed}] + [op for op in beh["hist"] if op["op"] == "stmt"][:1] + [
                {"op": "stmt", "st": [["iri", "a/", "x"], ["iri", "a/", "x"], ["iri", "b/", "x"]] + ([["dg"]] if c["PType"] == 2 else [])},
                {"op": "stmt", "st": [["iri", "a/", "x"], ["iri", "a/", "y"], ["lit", "l", "", ""]] + ([["iri", "a/", "x"]] if c["PType"] == 2 else [])}]
            beh = {"bad": beh["bad"], "hist": beh["hist"] + carry}
            res = writer.replay_stepwise(beh, c, sub)
            i0, op0 = rej_ops[0]
            slot = "spog"[len(op0["st"]) - 1]
            bad_term = op0["st"][-1]
            cause = {"bad": "unsupported-term", "end": "malformed-tuple", "lit": "typed-literal-no-datatype-table",
                     "qt": "nested", "iri": "table-too-small"}.get(bad_term[0], bad_term[0])
            key = {"stream": "TripleStream" if c["PType"] == 1 else "QuadStream", "cause": cause, "slot": slot}
            distinct.add((key["stream"], cause, slot, i0))
            frames = wire.dec_stream(res["bytes"], delimited=True)
            cases.append({"key": key, "model_bad": beh["bad"], "res": res,
                          "replay": {"consts": c, "ops": [(op["op"], op.get("st")) for op in beh["hist"]], "sub": sub.label,
                                     "raised": res["rejected"], "accepted": res["accepted"]}})
            traces.append({"id": len(cases) - 1, "rows": terms.jrows_of_frames(frames), "mode": "seq", "prefix": True,
                           "exp": [terms.jitem(terms.norm_item(it)) for it in res["accepted"]]})
    # TripleStream / QuadStream: enumerated slot x nesting x cause x (earlier slots repeated or fresh)
    plain = [sc for sc in stream_scenarios() if sc["nested"] == "no"]         # rdflib has no quoted triples: the same scenarios through its term encoder
    for sc, carry_on, integ in ([(sc, "direct", "generic") for sc in stream_scenarios()]
                                + [(sc, how, "generic") for sc in stream_scenarios()[::7] for how in ("enroll-again", "stream_frames")]
                                + [(sc, "declare-namespace", integ_) for sc in plain[::2] for integ_ in ("generic", "rdflib")]
                                + [(sc, "direct", "rdflib") for sc in plain]):
        data, accepted, raised = run_stream_scenario(sc, carry_on, integ)
        key = {"stream": sc["stream"], "cause": sc["cause"], "slot": sc["slot"], "nested": sc["nested"] != "no", "carry_on": carry_on, "integ": integ}
        distinct.add((sc["stream"], sc["cause"], sc["slot"], sc["nested"], sc["before"], integ))
        frames = wire.dec_stream(data, delimited=True)
        cases.append({"key": key, "model_bad": None, "res": {"rejected": raised, "accepted": accepted},
                      "replay": {"scenario": sc, "raised": raised, "accepted": accepted}})
        traces.append({"id": len(cases) - 1, "rows": terms.jrows_of_frames(frames), "mode": "seq", "prefix": True,
                       "exp": [terms.jitem(terms.norm_item(it)) for it in accepted]})
        n_rejecting += 1
    # a binding the serializer cannot encode (a plain str where an IRI object belongs, a non-str label) AFTER a good one, declarations on: stream_frames raises;
    # the caller catches it and goes on writing statements that share the good binding's namespace on the same stream
    for quads in (False, True):
        for badness in ("iri-is-a-str", "label-is-not-a-str"):
            gs_ = terms.generic_classes()
            cfg_b = impl.default_cfg(integ="generic", sclass=("quad" if quads else "triple"), ltype=(2 if quads else 1), delimited=True, frame_size=10**6, preset=(16, 8, 0), nsdecl=True)
            stream = impl.make_stream(cfg_b)
            sink = gs_.GenericStatementSink()
            sink.bind("good", gs_.IRI("http://good.example/ns#"))
            if badness == "iri-is-a-str":
                sink.bind("bad", "http://bad.example/")
            else:
                sink.bind(42, gs_.IRI("http://bad.example/"))
            I2 = lambda x: ("iri", x)  # noqa: E731
            first_st = (I2("http://good.example/ns#a"), I2("http://good.example/ns#p"), ("lit", "v", "", "")) + ((("dg",),) if quads else ())
            sink.add(terms.stmt_to_generic(first_st))
            frames_b, accepted_b, raised_b = [], [], []
            from pyjelly.integrations.generic import serialize as gser_b  # noqa: PLC0415
            try:
                for fr in gser_b.stream_frames(stream, sink):
                    frames_b.append(fr)
                accepted_b += [("ns", "good", "http://good.example/ns#"), first_st]
            except Exception as ex:  # noqa: BLE001
                raised_b.append((0, type(ex).__name__))
            for st in ((I2("http://good.example/ns#b"), I2("http://good.example/ns#p"), ("lit", "w", "", "")) + ((("dg",),) if quads else ()),
                       (I2("http://other.example/x"), I2("http://good.example/ns#p"), I2("http://good.example/ns#a")) + ((I2("http://good.example/ns#g"),) if quads else ())):
                try:
                    tt = [writer.to_impl_term(t, "generic") for t in st]
                    fr = stream.quad(tt) if quads else stream.triple(tt)
                    if fr:
                        frames_b.append(fr)
                    accepted_b.append(st)
                except Exception as ex:  # noqa: BLE001
                    raised_b.append((1, type(ex).__name__))
            last = stream.flow.to_stream_frame()
            if last:
                frames_b.append(last)
            out_b = io.BytesIO()
            for fr in frames_b:
                impl.write_delimited(fr, out_b)
            key = {"stream": "QuadStream" if quads else "TripleStream", "cause": "malformed-namespace-binding:" + badness, "slot": "-", "carry_on": "direct", "integ": "generic"}
            distinct.add((key["stream"], key["cause"]))
            fr_dec = wire.dec_stream(out_b.getvalue(), delimited=True)
            # what was declared before the failure may or may not have reached the output: judge validity and the STATEMENTS (declarations are C14's subject)
            st_only = [x for x in accepted_b if x[0] != "ns"]
            cases.append({"key": key, "model_bad": None, "res": {"rejected": raised_b or [(0, "<<accepted>>")], "accepted": st_only},
                          "replay": {"bindings": badness, "raised": raised_b, "accepted": accepted_b}})
            rows_b = [r_ for r_ in terms.jrows_of_frames(fr_dec)]
            traces.append({"id": len(cases) - 1, "rows": rows_b, "mode": "none", "prefix": True, "exp": []})
            n_rejecting += 1
            back_b = None
            try:
                back_b = [terms.norm_item(x) for x in impl.parse("generic", out_b.getvalue(), "flat") if x[0] != "ns"]
            except Exception as ex:  # noqa: BLE001
                back_b = f"{type(ex).__name__}: {str(ex)[:80]}"
            if back_b != [terms.norm_item(x) for x in st_only]:
                run.violation(key, f"after a namespace binding was rejected ({badness}) the caller carried on; what was written reads back as {str(back_b)[:120]}, "
                              f"accepted were {len(st_only)} statements", {"bindings": badness, "raised": raised_b, "accepted": accepted_b})
    # GraphStream, graph by graph
    for sc, integ in [(sc, "generic") for sc in graphstream_scenarios(tier)] + [(sc, "rdflib") for sc in graphstream_scenarios(tier) if sc["cause"] != "nested"]:
        data, accepted, raised = run_graph_scenario(sc, integ)
        key = {"stream": "GraphStream", "cause": sc["cause"], "slot": sc["slot"], "integ": integ}
        distinct.add(("GraphStream", sc["cause"], sc["slot"], sc["position"], integ))
        frames = wire.dec_stream(data, delimited=True)
        cases.append({"key": key, "model_bad": None, "res": {"rejected": raised, "accepted": accepted},
                      "replay": {"scenario": sc, "raised": raised, "accepted": accepted}})
        traces.append({"id": len(cases) - 1, "rows": terms.jrows_of_frames(frames), "mode": "seq", "prefix": True,
                       "exp": [terms.jitem(terms.norm_item(it)) for it in accepted]})
        n_rejecting += 1
    if n_rejecting < 20:
        env.machinery_failure("C20: too few behaviours with a rejection (vacuous)")
    verdicts = tlc.judge(traces)
    verdicts.pop("__stats__")
    samples = []
    for i, case in enumerate(cases):
        v = verdicts[i]
        if not case["res"]["rejected"]:
            run.violation({"clause": "unencodable-statement-accepted", **case["key"]},
                          "a statement that cannot be encoded was accepted without an exception", case["replay"])
        if v["verdict"] != "ok":
            run.violation(case["key"], f"after a rejected statement ({case['key']['cause']} in slot {case['key']['slot']}) the caller carried on and the "
                          f"stream no longer decodes to the accepted statements: {v['verdict']} at row {v['at']}", case["replay"])
        mb = case["model_bad"] or ""
        if case["model_bad"] is not None and mb.startswith(("Valid", "Faithful")) != (v["verdict"] != "ok"):
            run.model_drift(f"{case['key']}: PyWriter predicts '{case['model_bad'] or 'ok'}', real stream judged '{v['verdict']}'")
        if len(samples) < 3:
            samples.append({"key": case["key"], "raised": case["res"]["rejected"][:2], "judge": v["verdict"]})
    return run.finish({
        "evaluations": len(cases), "distinct_nontrivial": len(distinct),
        "rule": "TLC simulates PyWriter with SlotReject enabled (unsupported term, typed literal with the datatype table disabled, tuple ending early, "
                "unencodable term inside a quoted triple, statement too large for a table) at a random position and slot; each behaviour with a rejection is replayed "
                "as a catch-and-continue loop on a real TripleStream/QuadStream; GraphStream is driven graph by graph over cause x slot x position. "
                "distinct = (stream class, cause, slot, position of the rejection)",
        "samples": samples, "traces_validated_against_impl": len(cases),
        "state_graph_comparison": graph, "model": model, "states": sum(m["states"] for m in model.values()), "transitions": sum(m["transitions"] for m in model.values()),
        "model_note": "exhaustive TLC: Good holds on the rejection universes with PoisonOnReject=TRUE, and TLC finds it violated with PoisonOnReject=FALSE (non-vacuity)",
    })
