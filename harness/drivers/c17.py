"""C17 -- arbitrary bytes cannot crash, hang or balloon the parser."""
from __future__ import annotations

import json
import os
import random
import select
import subprocess
import sys
import time

from .. import env, producer, report, tlc, universes as U, wire, writer
from ..writer import cfg_text

NUM = {"0": 0, "7": 7, "8": 8, "4096": 4096, "4097": 4097, "2^31-1": 2**31 - 1, "2^32-1": 2**32 - 1, "1": 1}
BN = {"t": "bn", "v": "b"}


def nested_triple_row(depth) -> bytes:
    """A triple row whose object is a quoted triple nested `depth` deep (built inside-out: no recursion in the encoder)."""
    sp = wire._ld(2, b"b") + wire._ld(6, b"b")               # s_bnode, p_bnode
    body = sp + wire._ld(10, b"b")                            # innermost: o_bnode
    for _ in range(depth):
        body = sp + wire._ld(12, body)                        # o_triple_term
    return wire._ld(2, body)                                  # RdfStreamRow.triple


def to_bytes(tokens, rnd) -> bytes:
    out = b""
    rows = b""

    def close(kind="exact"):
        nonlocal out, rows
        body = rows
        rows = b""
        if kind == "exact":
            out += wire.enc_varint(len(body)) + body
        elif kind == "one-short":
            out += wire.enc_varint(max(len(body) - 1, 0)) + body
        elif kind == "one-long":
            out += wire.enc_varint(len(body) + 1) + body
        elif kind == "2^31-1":
            out += wire.enc_varint(2**31 - 1) + body
        elif kind == "2^63-1":
            out += wire.enc_varint(2**63 - 1) + body
        else:
            out += b"\xff\xff\xff" + body                     # a varint that never ends inside the input

    for t in tokens:
        k = t[0]
        if k == "options":
            n = NUM[t[1]]
            rows += wire._ld(1, wire.enc_row({"r": "opt", "name": "", "pt": 1, "gen": True, "star": True, "mn": n, "mp": n, "md": n, "lt": 1, "ver": 1}))
        elif k == "entry":
            rows += wire._ld(1, wire.enc_row({"r": "name", "id": NUM[t[1]], "v": "x"}))
        elif k in ("pfx-entry", "dt-entry"):
            rows += wire._ld(1, wire.enc_row({"r": "pfx" if k == "pfx-entry" else "dt", "id": NUM[t[1]], "v": "x"}))
        elif k == "metadata":
            rows += wire._ld(15, wire._ld(1, b"k" * 50) + wire._ld(2, bytes(range(256)) * 4))
        elif k == "many-rows":
            rows += wire._ld(1, wire.enc_row({"r": "triple", "s": BN, "p": BN, "o": BN})) * 3_000
        elif k == "many-empty-frames":
            if rows:
                close()
            out += b"\x00" * 30_000
        elif k == "namespace-row":
            rows += wire._ld(1, wire.enc_row({"r": "ns", "name": "n" * 1000, "iri": {"t": "iri", "p": 2**32 - 1, "n": 2**32 - 1}}))
        elif k == "graph-start-nested":
            rows += wire._ld(1, wire._ld(4, wire._ld(4, b"\x0a\x01x" * 3)))      # graph_start with a literal graph, junk inside
        elif k == "statement":
            d = t[1]
            if d == "flat":
                row = {"r": "triple", "s": BN, "p": BN, "o": BN}
            elif d == "repeat-all":
                row = {"r": "triple"}
            else:
                rows += wire._ld(1, nested_triple_row(int(d.split("-")[1])))
                continue
            rows += wire._ld(1, wire.enc_row(row))
        elif k == "strings":
            # one statement whose every string field (language tag, lexical form, blank-node label) and the entry rows before it carry the hostile pattern
            pat = {"alnum-run-then-odd": "a" * 48 + "_", "hyphen-runs-then-odd": "ab-" * 24 + "!", "blanks": " " * 4000 + "x", "nested-brackets": "<" * 300 + ">" * 300}[t[1]]
            rows += wire._ld(1, wire.enc_row({"r": "name", "id": 1, "v": pat})) + wire._ld(1, wire.enc_row({"r": "pfx", "id": 1, "v": pat}))
            rows += wire._ld(1, wire.enc_row({"r": "dt", "id": 1, "v": pat}))
            rows += wire._ld(1, wire.enc_row({"r": "triple", "s": {"t": "bn", "v": pat}, "p": {"t": "iri", "p": 1, "n": 1}, "o": {"t": "lit", "lex": pat, "lang": pat}}))
            rows += wire._ld(1, wire.enc_row({"r": "triple", "s": {"t": "iri", "p": 1, "n": 1}, "p": {"t": "iri", "p": 0, "n": 1}, "o": {"t": "lit", "lex": pat, "dt": 1}}))
        elif k == "frame-end":
            close(t[1])
        elif k == "empty-frame":
            if rows:
                close()
            out += b"\x00"
        elif k == "garbage":
            rows += bytes(rnd.randrange(256) for _ in range(rnd.randrange(1, 9)))
        elif k == "unknown-field":
            rows += wire._vi(99, 1) + wire._ld(77, b"zz")
    if rows:
        close()
    return out


def perturb(data: bytes, rnd) -> bytes:
    b = bytearray(data)
    op = rnd.randrange(6)
    if not b:
        return bytes(rnd.randrange(256) for _ in range(rnd.randrange(1, 40)))
    if op == 0:
        for _ in range(rnd.randrange(1, 4)):
            b[rnd.randrange(len(b))] ^= 1 << rnd.randrange(8)
    elif op == 1:
        i = rnd.randrange(len(b))
        del b[i:i + rnd.randrange(1, 8)]
    elif op == 2:
        i = rnd.randrange(len(b))
        b[i:i] = bytes(rnd.randrange(256) for _ in range(rnd.randrange(1, 8)))
    elif op == 3:
        i, j = sorted((rnd.randrange(len(b)), rnd.randrange(len(b))))
        b = b[:i] + b[j:] + b[i:j]
    elif op == 4:
        i = rnd.randrange(len(b))
        b[i:i + 1] = b"\xff\xff\xff\xff\x0f"
    else:
        b = bytearray(rnd.randrange(256) for _ in range(rnd.randrange(1, 200)))
    return bytes(b)


def declares_frame_far_beyond_input(data: bytes) -> bool:
    """Walk the length prefixes as the delimited reader would: is some declared frame length >= 64 MiB larger than what is left?"""
    pos = 0
    for _ in range(10000):
        if pos >= len(data):
            return False
        try:
            ln, p2 = wire.dec_varint(data, pos)
        except wire.WireError:
            return False
        if ln > (len(data) - p2) + (1 << 26):
            return True
        if ln == 0 and p2 == pos:
            return False
        pos = p2 + ln
    return False


class Pool:
    def __init__(self):
        self.p = None

    def start(self):
        e = dict(os.environ)
        self.p = subprocess.Popen([sys.executable, "-m", "harness.hostile_worker"], cwd=env.VERIF, env=e, stdin=subprocess.PIPE, stdout=subprocess.PIPE,
                                  stderr=subprocess.DEVNULL, text=True, bufsize=1)

    def run(self, job, timeout):
        if self.p is None or self.p.poll() is not None:
            self.start()
        try:
            self.p.stdin.write(json.dumps(job) + "\n")
            self.p.stdin.flush()
        except BrokenPipeError:
            return {"dead": self.p.poll()}
        t0 = time.time()
        r, _, _ = select.select([self.p.stdout], [], [], timeout)
        if not r:
            self.p.kill()
            self.p.wait()
            return {"hang": time.time() - t0}
        line = self.p.stdout.readline()
        if not line:
            rc = self.p.wait()
            return {"dead": rc}
        return json.loads(line)

    def stop(self):
        if self.p and self.p.poll() is None:
            self.p.stdin.close()
            self.p.wait(10)


def main(tier: str) -> int:
    run = report.Run("C17", "exploration", tier)
    seed = env.seed()
    rnd = random.Random(seed)
    maxlen = 2 if tier == "quick" else 3
    r = tlc.run("Hostile", cfg_text({"MaxLen": maxlen}, ("Bounded", "Progress", "PrintInput"), extra="PROPERTY Terminates"), workers=1, timeout=1200)
    if r.violated or not r.ok:
        env.machinery_failure(f"C17: Hostile.tla {r.violated or r.errors[:2]}")
    inputs = [json.loads(p) for p in r.printed("INPUT")]
    seen = set()
    jobs = []
    for toks in inputs:
        k = json.dumps(toks)
        if k in seen:
            continue
        seen.add(k)
        jobs.append(("tokens", toks, to_bytes(toks, rnd)))
    # longer hostile sequences (random walks over the same token alphabet), and byte-level perturbation of valid streams
    alphabet = sorted({json.dumps(t) for toks in inputs for t in toks})
    for _ in range(200 if tier == "quick" else 5000):
        toks = [json.loads(rnd.choice(alphabet)) for _ in range(rnd.randrange(3, 9))]
        if rnd.random() < 0.7:
            toks = [["options", "8"]] + toks
        jobs.append(("tokens", toks, to_bytes(toks, rnd)))
    valid = []
    for uni in ("mix-triples", "mix-quads", "r11-graphs", "mix-ns"):
        c = U.SIM[uni]
        behs, _ = writer.simulate(c, num=3, hist_len=8, seed=seed + 17)
        for beh in behs:
            valid.append(writer.replay_stepwise(beh, c, writer.Subst(), frame_size=3)["bytes"])
    for _ in range(800 if tier == "quick" else 20000):
        base = rnd.choice(valid)
        data = perturb(base, rnd)
        if rnd.random() < 0.3:
            data = perturb(data, rnd)
        jobs.append(("perturbed", None, data))
    # a huge declared frame length with MORE than one read chunk (1 MiB) of real bytes behind it: a valid stream, then the bogus prefix, then 1.5 MiB
    filler = (valid[0] * (1 + (3 * 2**19) // max(1, len(valid[0]))))[: 3 * 2**19]
    for declared in (2**27, 2**31 - 1, 6 * 2**30):
        for lead in (b"", valid[0]):
            jobs.insert(len(jobs) // (2 + (declared % 3)), ("huge-length-with-payload", None, lead + wire.enc_varint(declared) + filler))
    pool = Pool()
    # time must grow with the size of the input, not with its square: one frame of n and of 4n tiny rows (n = 50 000); linear work gives a ratio near 4
    scaling = {}
    for attempt in range(2):
        small = pool.run({"id": -1, "scaling_rows": 50_000}, timeout=120)
        large = pool.run({"id": -2, "scaling_rows": 200_000}, timeout=480)
        if "hang" in large or "dead" in large or "hang" in small or "dead" in small:
            run.violation({"clause": "hang", "kind": "one-frame-of-200000-rows"}, f"one frame of 200 000 tiny rows (1.4 MB): {large if 'scaling' not in large else small}", {"rows": 200_000})
            pool = Pool()
            break
        worst = 0.0
        for integ_ in ("generic", "rdflib"):
            t_s, t_l = small["scaling"][integ_][1], large["scaling"][integ_][1]
            scaling[integ_] = {"rows_50k_s": round(t_s, 2), "rows_200k_s": round(t_l, 2), "ratio": round(t_l / max(t_s, 1e-3), 1)}
            worst = max(worst, t_l / max(t_s, 1e-3) if t_l > 3.0 else 0.0)
        if worst <= 9.0:
            break
    else:
        run.violation({"clause": "superlinear-time", "kind": "one-frame-of-200000-rows"},
                      f"parsing time grows faster than the input: 4 x the rows of one frame cost {scaling} (twice in a row)", {"scaling": scaling})
    distinct = set()
    outcomes: dict = {}
    samples = []
    t0 = time.time()
    hangs = 0
    for i, (kind, toks, data) in enumerate(jobs):
        sources = ["bytesio", "raw", "file"] if i % 3 else ["bytesio", "raw", "raw7", "buffered"]
        if kind == "huge-length-with-payload":
            sources = ["bytesio", "raw", "file", "buffered"]
        if hangs >= 6:
            break                      # the point is made; every further hang costs a full watchdog period
        # the watchdog covers all 12-18 parses of one input: a fixed allowance plus time proportional to the input size ("promptly")
        res = pool.run({"id": i, "hex": data.hex(), "sources": sources}, timeout=10 + len(data) / 4000)
        distinct.add(data)
        rp = {"kind": kind, "tokens": toks, "hex": data.hex()[:4000], "length": len(data)}
        if "hang" in res:
            hangs += 1
            run.violation({"clause": "hang", "kind": kind}, f"no answer within {res['hang']:.0f}s for an input of {len(data)} bytes", rp)
            continue
        if "dead" in res:
            run.violation({"clause": "interpreter-died", "kind": kind}, f"the worker process died (status {res['dead']}) on an input of {len(data)} bytes", rp)
            continue
        for ep, o in res["res"].items():
            cls = o.split(":")[0] + (":" + o.split(":")[1] if o.startswith("raise") else "")
            outcomes[cls] = outcomes.get(cls, 0) + 1
            if o == "MEMORY" or o.startswith("BASE"):
                huge = declares_frame_far_beyond_input(data)
                run.violation({"clause": "memory" if o == "MEMORY" else "non-ordinary-exception", "entry": ep.split("/")[0],
                               "source": "non-seekable" if ep.split("/")[1].startswith("raw") else {"bytesio": "BytesIO", "file": "file", "buffered": "BufferedReader"}[ep.split("/")[1]],
                               "declared_frame_length_far_beyond_input": huge},
                              f"{ep}: {o} on an input of {len(data)} bytes", rp)
        if res["rss_growth_kb"] > 150_000:
            run.violation({"clause": "memory-growth", "kind": kind}, f"resident memory grew by {res['rss_growth_kb'] // 1024} MB while parsing {len(data)} bytes", rp)
        if len(samples) < 3 and kind == "tokens" and len(toks) >= 2:
            samples.append({"tokens": toks, "bytes": len(data), "outcomes": sorted(set(res["res"].values()))[:4]})
    pool.stop()
    return run.finish({
        "evaluations": len(jobs) * 6, "distinct_nontrivial": len(distinct),
        "rule": "TLC enumerates every hostile token sequence up to length MaxLen over the alphabet of spec/Hostile.tla (options with declared table sizes 0..2^32-1, entries with ids up to 2^32-1, "
                "statements nested 3..5000 deep or with every term repeated, frames whose declared length is short, long, 2^31-1, 2^63-1 or an unterminated varint, empty frames, garbage, unknown fields) "
                "and checks Progress/Bounded/termination of the abstract loop; each sequence, longer random walks over the same alphabet, and byte-level perturbations (bit flips, deletions, insertions, "
                "splices, overlong varints, pure noise) of real streams are parsed by all six entry points from BytesIO, real files, BufferedReader and non-seekable sources in a worker with RLIMIT_AS=3GB and a watchdog of 10 s + 1 s per 4 kB of input. "
                "distinct = distinct byte strings",
        "samples": samples, "scaling": scaling, "outcome_histogram": outcomes, "inputs": len(jobs), "token_sequences_from_tlc": len(seen),
        "tlc_states": r.distinct, "wall_parse_s": round(time.time() - t0, 1),
        "observed_not_modelled": "termination and memory behaviour of the protobuf C extension (upb) are observed under the watchdog, not consequences of the model",
    })
