"""C11 -- streaming: bounded buffering on write, no read-ahead needed on parse."""
from __future__ import annotations

import io
import json
import os
import random
from concurrent.futures import ThreadPoolExecutor

from .. import env, impl, producer, report, terms, tlc, universes as U, wire, writer
from ..writer import cfg_text
from .c10 import judge_truncations
from .c16 import drain

BASE = {"NStmts": 5, "FrameSize": 3, "MaxRows": 3, "ReadAhead": 0, "EnrollFirst": "TRUE", "NFrames": 3, "RowsPerFrame": 2, "Delivered": 2, "Lookahead": 0}


def model(spec, props, invs=(), **kw):
    c = dict(BASE, **kw)
    lines = [f"SPECIFICATION {spec}", "CONSTANTS"] + [f" {k} = {v}" for k, v in c.items()]
    lines += [f"PROPERTY {p}" for p in props] + [f"INVARIANT {i}" for i in invs] + ["CHECK_DEADLOCK FALSE"]
    return tlc.run("PyPipeline", "\n".join(lines) + "\n", workers=2, timeout=300)


class Stall(Exception):
    pass


class StallingRaw(io.RawIOBase):
    """Delivers data[:limit] (in reads of at most `chunk` bytes) and then stalls forever: a further read raises Stall."""

    def __init__(self, data, limit, chunk):
        self.data, self.limit, self.chunk, self.pos = data, limit, chunk, 0
        self.requests = []

    def readable(self):
        return True

    def seekable(self):
        return False

    def readinto(self, b):
        self.requests.append((self.pos, len(b)))
        if self.pos >= self.limit:
            if self.limit >= len(self.data):
                return 0
            raise Stall
        n = min(len(b), self.chunk, self.limit - self.pos)
        b[:n] = self.data[self.pos:self.pos + n]
        self.pos += n
        return n


class ProjectionUnavailable(Exception):
    """The recorder cannot see the pending rows of the pipeline (an internal of pyjelly was renamed): nothing can be concluded from this run."""


class _Iter:
    """An iterator that is not a generator object (what a csv reader, a database cursor or a queue adapter is)."""

    def __init__(self, it):
        self._it = it

    def __iter__(self):
        return self

    def __next__(self):
        return next(self._it)


def record_write_run(integ, entry, ptype, stmts, fs, preset, explicit_flow=False, iter_kind="generator"):
    """Run one real serializer pipeline; returns the event log.
    explicit_flow: the frame size is configured through an explicit FrameFlow object in SerializerOptions.flow (options.frame_size stays 250)."""
    mod = __import__(f"pyjelly.integrations.{integ}.serialize", fromlist=["stream_frames"])
    events = []
    state = {"pulled": 0, "stream": None, "gen": None, "seen_rows": 0, "frame_rows": 0, "enc_done": 0, "enrolled": False}
    sclass = "triple" if ptype == 1 else "quad"
    cfg = impl.default_cfg(integ=integ, sclass=sclass, ltype=(1 if ptype == 1 else 2), delimited=True, frame_size=fs, preset=preset,
                           gen=(integ == "generic"), star=(integ == "generic"))
    if explicit_flow:
        cfg.update(flow=("flat_triples" if ptype == 1 else "flat_quads"), options_frame_size=250)

    def the_stream():
        if state["stream"] is not None:
            return state["stream"]
        g = state["gen"]
        if g is not None and g.gi_frame is not None:
            return g.gi_frame.f_locals.get("stream")
        return None

    def pending():
        s = the_stream()
        try:
            return len(s.flow) if s is not None else 0
        except (AttributeError, TypeError) as ex:
            raise ProjectionUnavailable(f"Stream.flow: {ex}") from None

    def flush_enc():
        """Synthesize the `enc` event of the statement whose rows have been added since the last observation."""
        i = state["pulled"]
        if i > state["enc_done"]:
            if the_stream() is None:
                g_ = state["gen"]
                if g_ is not None and g_.gi_frame is not None and "stream" in g_.gi_code.co_varnames:
                    return                 # the pipeline HAS such a variable and has not assigned it yet although a statement was handed over: it is reading ahead
                raise ProjectionUnavailable("no Stream visible (local variable `stream` in the frame of flat_stream_to_frames)")
            total = state["frame_rows"] + pending()
            if not state["enrolled"]:                                   # flat_stream_to_frames enrolls after the first pull
                events.append({"e": "enroll"})
                state["enrolled"] = True
                state["seen_rows"] = 1
            r = total - state["seen_rows"]
            events.append({"e": "enc", "i": i, "r": r})
            state["seen_rows"] = total
            state["enc_done"] = i

    def source():
        for st in stmts:
            flush_enc()
            state["pulled"] += 1
            if not state["enrolled"] and pending() == 1:                # stream_frames enrolled before asking for input
                events.append({"e": "enroll"})
                state["enrolled"] = True
                state["seen_rows"] = 1
            events.append({"e": "pull", "i": state["pulled"], "pending": pending()})
            yield (terms.stmt_to_generic(st) if integ == "generic" else impl.rdflib_statement(st))

    src = (source() if iter_kind == "generator" else map(lambda x: x, source()) if iter_kind == "map" else
           (tuple(x) for x in source()) if iter_kind == "plain-tuples" else _Iter(source()))
    if entry == "flat_stream_to_frames":
        gen = mod.flat_stream_to_frames(src, impl.make_options(cfg))
        state["gen"] = gen
    else:
        state["stream"] = impl.make_stream(cfg)
        gen = mod.stream_frames(state["stream"], src)
    k = 0
    while True:
        events.append({"e": "resume"})
        try:
            fr = next(gen)
        except StopIteration:
            events.append({"e": "end"})
            break
        k += 1
        state["frame_rows"] += len(fr.rows)
        state["stmt_rows"] = state.get("stmt_rows", 0) + sum(1 for row in fr.rows if row.WhichOneof("row") in ("triple", "quad"))
        flush_enc()
        events.append({"e": "frame", "k": k, "rows": len(fr.rows), "pulled": state["pulled"], "stmts": state["stmt_rows"]})
    return events


def main(tier: str) -> int:
    run = report.Run("C11", "model_checking", tier)
    seed = env.seed()
    rnd = random.Random(seed)
    # ---- the model: the design as coded satisfies the properties; the two wrong designs are refuted (non-vacuity)
    wprops = ("BoundedBuffering", "FrameBeforeInput", "NoFurtherThanCompleting", "WTerminates")
    jobs = [("w", dict(NStmts=n, FrameSize=fs, MaxRows=3, ReadAhead=0, EnrollFirst=ef)) for n in (3, 6) for fs in (1, 2, 3, 4, 7) for ef in ("TRUE", "FALSE")]
    jobs += [("w", dict(NStmts=5, FrameSize=fs, MaxRows=16, ReadAhead=0, EnrollFirst="TRUE")) for fs in (9, 18, 32)]
    jobs += [("r", dict(NFrames=nf, Delivered=d, RowsPerFrame=rp, Lookahead=0)) for nf in (1, 3, 4) for d in range(0, nf + 1) for rp in (1, 3)]
    jobs += [("wbad", dict(NStmts=5, FrameSize=3, ReadAhead=1)), ("rbad", dict(NFrames=3, Delivered=2, Lookahead=1))]

    def mc(job):
        kind, kw = job
        if kind.startswith("w"):
            return job, model("WSpec", wprops, **kw)
        return job, model("RSpec", ("Live",), ("NoReadAhead",), **kw)

    with ThreadPoolExecutor(8) as ex:
        res = list(ex.map(mc, jobs))
    states = trans = 0
    for (kind, kw), r in res:
        states += r.distinct
        trans += r.generated
        if kind.endswith("bad"):
            if not r.violated:
                env.machinery_failure(f"C11: the deliberately wrong design {kw} is not refuted by TLC: properties vacuous")
        elif r.violated or not r.ok:
            env.machinery_failure(f"C11: PyPipeline {kind} {kw}: {r.violated or r.errors[:2]}")
    # ---- write side: real pipelines, event logs judged by TLC (TracePipeline)
    groups: dict = {}
    metas = {}
    nb = 3 if tier == "quick" else 25
    tid = 0
    for uni in ("r11-triples", "r11-quads", "mix-triples"):
        c = U.SIM[uni]
        for n in (6, 9):
            behs, _ = writer.simulate(c, num=nb, hist_len=n, seed=seed + 11 + n)
            for bi, beh in enumerate(behs):
                stmts = [tuple(writer.abs_term(t, writer.Subst()) for t in op["st"]) for op in beh["hist"] if op["op"] == "stmt"]
                if len(stmts) != n:
                    continue
                for fs in (1, 2, 3, 4, 250):
                    for integ in (("generic", "rdflib") if uni.startswith("r11") else ("generic",)):
                        entry = ("flat_stream_to_frames", "stream_frames")[(bi + fs) % 2]
                        explicit = (bi + n) % 3 == 0 and fs != 250
                        try:
                            ik = ("generator", "map", "iterator-class", "plain-tuples" if integ == "rdflib" else "generator")[(bi + fs + n) % 4]
                            ev = record_write_run(integ, entry, c["PType"], stmts, fs, (c["MaxN"], c["MaxP"], c["MaxD"]), explicit_flow=explicit, iter_kind=ik)
                        except ProjectionUnavailable as ex:
                            run.model_drift(f"write pipeline {entry} cannot be observed ({ex}): event log skipped")
                            continue
                        except Exception as ex:  # noqa: BLE001
                            run.violation({"side": "write", "clause": "pipeline-raised", "integ": integ, "entry": entry}, f"{type(ex).__name__}: {ex}",
                                          {"statements": stmts, "frame_size": fs})
                            continue
                        tid += 1
                        groups.setdefault((fs, n, "TRUE" if entry == "stream_frames" else "FALSE"), []).append({"id": tid, "events": ev})
                        metas[tid] = ({"side": "write", "integ": integ, "entry": entry, "ptype": c["PType"], "frame_size": fs, "explicit_flow": explicit, "input": ik},
                                      {"statements": stmts, "frame_size": fs, "events": ev})

    # statements that each need MANY rows (every term a fresh IRI in an unseen namespace; quoted triples), with larger frame sizes:
    # a serializer that skips the bounds check "because the next statements certainly still fit" shows only here
    def fresh(i, k):
        return ("iri", f"http://ns{i}-{k}.example/path/local{i}{k}")

    heavy = {
        ("generic", 2): [(fresh(i, 0), fresh(i, 1), fresh(i, 2), fresh(i, 3)) for i in range(14)],
        ("rdflib", 2): [(fresh(i, 0), fresh(i, 1), fresh(i, 2), fresh(i, 3)) for i in range(14)],
        ("generic", 1): [(("qt", fresh(i, 0), fresh(i, 1), fresh(i, 2)), fresh(i, 3), ("qt", fresh(i, 4), fresh(i, 5), ("lit", str(i), "", f"http://dt{i}.example/t")))
                         for i in range(14)],
    }
    for (integ, ptype), stmts in heavy.items():
        for fs in (9, 16, 18, 32, 64):
            for entry in ("flat_stream_to_frames", "stream_frames"):
                try:
                    ev = record_write_run(integ, entry, ptype, stmts, fs, (4000, 150, 32))
                except ProjectionUnavailable as ex:
                    run.model_drift(f"write pipeline {entry} cannot be observed ({ex}): event log skipped")
                    continue
                except Exception as ex:  # noqa: BLE001
                    run.violation({"side": "write", "clause": "pipeline-raised", "integ": integ, "entry": entry}, f"{type(ex).__name__}: {ex}", {"frame_size": fs})
                    continue
                tid += 1
                groups.setdefault((fs, len(stmts), "TRUE" if entry == "stream_frames" else "FALSE"), []).append({"id": tid, "events": ev})
                metas[tid] = ({"side": "write", "integ": integ, "entry": entry, "ptype": ptype, "frame_size": fs, "workload": "many-rows-per-statement"},
                              {"statements": [repr(x) for x in stmts[:3]], "frame_size": fs, "events": ev})

    def judge_group(item):
        (fs, n, ef), traces = item
        path = os.path.join(env.workdir(), f"pipe-{os.getpid()}-{fs}-{n}-{ef}.json")
        with open(path, "w") as f:
            json.dump(traces, f)
        cfg = ("INIT TInit\nNEXT TNext\nCONSTANTS\n" + "".join(f" {k} = {v}\n" for k, v in dict(BASE, NStmts=n, FrameSize=fs, MaxRows=60, EnrollFirst=ef).items())
               + "INVARIANT Report\nCHECK_DEADLOCK FALSE\n")
        r = tlc.run("TracePipeline", cfg, workers=1, timeout=600, env_extra={"TRACE_FILE": path})
        os.unlink(path)
        return traces, r

    with ThreadPoolExecutor(8) as ex:
        judged = list(ex.map(judge_group, groups.items()))
    wtraces = 0
    samples = []
    for traces, r in judged:
        states += r.distinct
        trans += r.generated
        vs = {}
        for p in r.printed("VERDICT"):
            v = json.loads(p)
            vs[v["id"]] = v
        for t in traces:
            wtraces += 1
            v = vs.get(t["id"])
            if v is None:
                env.machinery_failure("C11: TracePipeline gave no verdict for a trace:\n" + "\n".join(r.out.splitlines()[-15:]))
            key, rp = metas[t["id"]]
            if v["verdict"].startswith("W"):
                run.violation(dict(key, clause=v["verdict"]), f"{v['verdict']} at event {v['at']}: {t['events'][v['at'] - 1]}", rp)
            elif v["verdict"] != "ok":
                run.model_drift(f"{key}: event log is not a behaviour of PyPipeline ({v['verdict']} at event {v['at']})")
            if len(samples) < 2 and key["frame_size"] == 2:
                samples.append({"key": key, "events": t["events"][:9]})
    # ---- *_to_file entry points: "handed to the caller" = written to the caller's output object.  At every pull, the bytes the output has
    #      received must be exactly the frames completed so far (as the frame generator yields them), for raw and duck-typed outputs
    class RawLog(io.RawIOBase):
        def __init__(self):
            self.n = 0

        def writable(self):
            return True

        def write(self, b):
            self.n += len(b)
            return len(b)

    class DuckLog:
        def __init__(self):
            self.n = 0

        def write(self, b):
            self.n += len(b)
            return len(b)

    def fresh9(i, k):
        return ("iri", f"http://w{i}-{k}.example/l{i}{k}")

    tofile_runs = 0
    for integ in ("generic", "rdflib"):
        mod = __import__(f"pyjelly.integrations.{integ}.serialize", fromlist=["flat_stream_to_file"])
        for ptype, fs in ((1, 1), (2, 3), (1, 4)):
            stmts = [tuple(fresh9(i, k) for k in range(3 if ptype == 1 else 4)) for i in range(12)]
            conv = (lambda st: terms.stmt_to_generic(st)) if integ == "generic" else (lambda st: impl.rdflib_statement(st))
            cfg = impl.default_cfg(integ=integ, sclass=("triple" if ptype == 1 else "quad"), ltype=(1 if ptype == 1 else 2), frame_size=fs, preset=(4000, 150, 32),
                                   gen=(integ == "generic"), star=(integ == "generic"))
            # baseline: cumulative bytes of the frames yielded before each pull
            base_log, done = [], {"bytes": 0}

            def src_a(base_log=base_log, done=done):
                for st in stmts:
                    base_log.append(done["bytes"])
                    yield conv(st)

            for fr in mod.flat_stream_to_frames(src_a(), impl.make_options(cfg)):
                b_ = io.BytesIO()
                impl.write_delimited(fr, b_)
                done["bytes"] += len(b_.getvalue())
            for kind, out_ in (("RawIOBase", RawLog()), ("duck-typed", DuckLog())):
                seen = []

                def src_b(out_=out_, seen=seen):
                    for st in stmts:
                        seen.append(out_.n)
                        yield conv(st)

                tofile_runs += 1
                try:
                    mod.flat_stream_to_file(src_b(), out_, impl.make_options(cfg))
                except Exception as ex:  # noqa: BLE001
                    run.violation({"side": "write", "clause": "pipeline-raised", "integ": integ, "entry": "flat_stream_to_file", "output": kind}, f"{type(ex).__name__}: {ex}", {"frame_size": fs})
                    continue
                if seen != base_log:
                    k = next(i for i, (a, b) in enumerate(zip(seen, base_log)) if a != b)
                    run.violation({"side": "write", "clause": "frame-not-handed-over-before-next-pull", "integ": integ, "entry": "flat_stream_to_file", "output": kind},
                                  f"at pull #{k + 1} the output object had received {seen[k]} bytes, but {base_log[k]} bytes of finished frames exist (frame_size {fs})",
                                  {"frame_size": fs, "written_at_pull": seen, "frames_finished_at_pull": base_log})
    # ---- read side: the source stalls forever after frame j
    records, rmeta = [], []
    streams = []
    for uni, fs in (("r11-triples", 1), ("r11-quads", 2), ("r11-graphs", 2), ("mix-ns", 3)):
        c = U.SIM[uni]
        behs, _ = writer.simulate(c, num=(2 if tier == "quick" else 12), hist_len=8, seed=seed + 111)
        for beh in behs:
            res_ = writer.replay_stepwise(beh, c, writer.Subst(), delimited=True, frame_size=fs)
            streams.append((uni, res_["bytes"]))
    for uni, data in streams:
        frames = wire.dec_delimited(data)
        ends = [e for _, _, e in wire.frame_extents(data)]
        counts = producer.denoting_per_frame(frames)
        for integ in (("generic", "rdflib") if uni.startswith("r11") else ("generic",)):
            full, exc = drain(integ, data)
            if exc is not None:
                run.violation({"side": "read", "clause": "complete-stream-does-not-parse", "integ": integ}, f"{uni}: {exc}", {"stream": uni})
                continue
            mod = __import__(f"pyjelly.integrations.{integ}.parse", fromlist=["parse_jelly_flat"])
            conv = terms.item_from_generic if integ == "generic" else terms.item_from_rdflib
            for j, end in enumerate(ends, start=1):
                for chunk in (1, 5, 10**6):
                    src = StallingRaw(data, end, chunk)
                    got, outcome = [], "eof"
                    try:
                        for x in mod.parse_jelly_flat(src):
                            got.append(conv(x))
                    except Stall:
                        outcome = "stall"
                    except Exception as ex:  # noqa: BLE001
                        outcome = f"raise:{type(ex).__name__}"
                    beyond = max((p + n for p, n in src.requests if p < end), default=0)
                    rec = {"id": len(records), "ends": ends, "counts": counts, "cut": end, "yielded": len(got), "prefixOK": got == full[:len(got)],
                           "outcome": "eof" if outcome == "eof" else "raise"}
                    records.append(rec)
                    rmeta.append(({"side": "read", "integ": integ, "chunk": chunk if chunk < 10 else "unlimited"},
                                  {"stream": uni, "delivered_frames": j, "of": len(ends), "hex": data.hex(), "outcome": outcome, "read_requests": src.requests[-4:]}))
    verdicts, jr = judge_truncations(records)
    states += jr.distinct
    trans += jr.generated
    for rec, (key, rp) in zip(records, rmeta):
        v = verdicts[rec["id"]]
        if v["verdict"] == "P2-lost-statement-of-delivered-frame":
            run.violation(dict(key, clause="needs-bytes-of-next-frame"),
                          f"bytes of frames 1..{rp['delivered_frames']} delivered, source then stalls: only {rec['yielded']} of their items were yielded before the parser blocked", rp)
        elif v["verdict"] != "ok":
            run.violation(dict(key, clause=v["verdict"]), f"{v['verdict']} with frames 1..{rp['delivered_frames']} delivered", rp)
        elif rp["outcome"].startswith("raise"):
            run.violation(dict(key, clause="raised-on-stall"), f"parser raised {rp['outcome']} instead of waiting", rp)
    if len(samples) < 3:
        samples.append({"read_side_records": len(records)})
    return run.finish({
        "states": states, "transitions": trans, "traces_validated_against_impl": wtraces + len(records), "samples": samples, "exhaustive": False,
        "write_traces": wtraces, "to_file_runs": tofile_runs, "read_records": len(records), "model_configurations": len(jobs),
        "scope": "pull discipline asserted for TRIPLES and QUADS statement iterators (flat_stream_to_frames, stream_frames) of both integrations; "
                 "GRAPHS regroups its input by design (DESIGN.md 6, C11 scope)",
        "explanation": "spec/PyPipeline.tla: TLC checks the action properties BoundedBuffering, FrameBeforeInput, NoFurtherThanCompleting and termination of the write pipeline, "
                       "and Live/NoReadAhead of the read pipeline for every stall point (and refutes a read-ahead serializer and a look-ahead parser); real pipelines are instrumented from "
                       "outside (input generator, frame consumer, stream.flow) and every event log is validated by TLC as a behaviour of PyPipeline (spec/TracePipeline.tla); "
                       "on the read side a source that stalls forever after frame j must still see every item of frames 1..j yielded",
    })
