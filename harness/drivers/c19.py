"""C19 -- compression contract: each string once, repeats elided, delta (zero) forms used."""
from __future__ import annotations

from .. import campaign, env, report, universes as U
from .common import slices_summary


def main(tier: str) -> int:
    run = report.Run("C19", "model_checking", tier)
    seed = env.seed()
    slices = U.QUICK_SLICES if tier == "quick" else U.THOROUGH_SLICES
    res = campaign.run_slices(slices, inv=("Good",), timeout=1500 if tier == "thorough" else 400)
    states, trans, cov = slices_summary(run, res, "C19")
    cases, stats = campaign.writer_campaign(tier, seed + 1919, parse_entries=(), n_beh=60 if tier == "quick" else 500)
    judged = 0
    tot = {"entries": 0, "re": 0, "me": 0, "mz": 0, "rg": 0}
    samples = []
    naive_worse = 0
    for case in cases:
        if case.verdict is None or case.verdict["verdict"] != "ok":
            continue          # validity is C03's clause
        judged += 1
        aud = case.verdict["aud"]
        for k in tot:
            tot[k] += aud.get(k, 0)
        names = {"re": "redundant lookup entry (string already resident in that table)",
                 "me": "term equal to the previous statement's term in that slot was not elided",
                 "mz": "explicit id where the zero (delta) form is equivalent"}
        for k, what in names.items():
            if aud.get(k, 0):
                run.violation({"clause": k, **case.key}, f"{what}: {aud[k]} occurrence(s)", case.replay)
        regroup = case.key["entry"] in ("stream_frames", "flat_to_file") and case.key["universe"].endswith("graphs")
        if regroup and aud.get("rg", 0):
            run.violation({"clause": "rg", **case.key},
                          f"consecutive quads with equal graph names did not travel under one graph start: {aud['rg']}", case.replay)
        if len(samples) < 3:
            samples.append({"key": case.key, "audit": aud})
    if tot["entries"] == 0:
        env.machinery_failure("C19: no lookup entries seen in any judged stream (vacuous)")
    return run.finish({
        "states": states + stats["judge"].get("states", 0), "transitions": trans + stats["judge"].get("transitions", 0),
        "traces_validated_against_impl": judged, "samples": samples, "exhaustive": False,
        "audit_totals": tot, "slices": cov, "simulation": stats["sim"], "judge": stats["judge"],
        "explanation": "audit clauses of spec/JellyReader.tla (policy-independent: any eviction policy passes) evaluated by TLC on every row of "
                       "every stream the real serializer produced; the model composition PyWriter o JellyReader checks the same clauses (Tight:*) exhaustively",
    })
