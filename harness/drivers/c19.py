"""C19 -- compression contract: each string once, repeats elided, delta (zero) forms used."""
from __future__ import annotations

from .. import campaign, env, report, universes as U
from .common import slices_summary


def main(tier: str) -> int:
    run = report.Run("C19", "model_checking", tier)
    seed = env.seed()
    slices = U.QUICK_SLICES if tier == "quick" else U.THOROUGH_SLICES
    res = campaign.run_slices(slices, inv=("Good",), timeout=1500 if tier == "thorough" else 400)
    states, trans, cov = slices_summary(run, res, "C19")
    cases, stats = campaign.writer_campaign(tier, seed + 1919, parse_entries=(), n_beh=60 if tier == "quick" else 500, rdflib_share=True)
    judged = 0
    tot = {"entries": 0, "re": 0, "me": 0, "mz": 0, "rg": 0}
    samples = []
    naive_worse = 0
    for case in cases:
        if case.verdict is None or case.verdict["verdict"] != "ok":
            continue          # validity is C03's clause
        judged += 1
        aud = case.verdict["aud"]
        for k in tot:
            tot[k] += aud.get(k, 0)
        names = {"re": "redundant lookup entry (string already resident in that table)",
                 "me": "term equal to the previous statement's term in that slot was not elided",
                 "mz": "explicit id where the zero (delta) form is equivalent"}
        for k, what in names.items():
            if aud.get(k, 0):
                run.violation({"clause": k, **case.key}, f"{what}: {aud[k]} occurrence(s)", case.replay)
        regroup = case.key["entry"] in ("stream_frames", "flat_to_file") and case.key["universe"].endswith("graphs")
        if regroup and aud.get("rg", 0):
            run.violation({"clause": "rg", **case.key},
                          f"consecutive quads with equal graph names did not travel under one graph start: {aud['rg']}", case.replay)
        if len(samples) < 3:
            samples.append({"key": case.key, "audit": aud})
    # regrouping on long runs: runs of 1200 / 3 / 2600 consecutive quads with equal graph names must travel under ONE graph start each
    from .. import impl, terms, tlc, wire  # noqa: PLC0415
    I_ = lambda x: ("iri", x)  # noqa: E731
    runs_ = [(I_("http://g/1"), 1200), (("dg",), 3), (("bn", "g2"), 2600), (I_("http://g/1"), 5)]
    quads = [(I_(f"http://e/s{i % 9}"), I_("http://e/p"), ("lit", str(i), "", ""), g) for g, n_ in runs_ for i in range(n_)]
    rtraces, rkeys = [], []
    for integ in ("generic", "rdflib"):
        if integ == "rdflib":
            continue                     # the rdflib path rebuilds a Dataset (one graph per name by construction): no sequence regrouping to audit
        cfg = impl.default_cfg(integ=integ, entry="stream_frames", sclass="graph", ltype=2, frame_size=250, preset=(4000, 150, 32), gen=False, star=False, as_sink=False)
        try:
            data = impl.serialize(cfg, quads)
            frames = wire.dec_delimited(data)
        except Exception as ex:  # noqa: BLE001
            run.violation({"clause": "serializer-raised", "universe": "long-graph-runs"}, f"{type(ex).__name__}: {ex}", {"runs": [n for _, n in runs_]})
            continue
        starts = sum(1 for fr in frames for r_ in fr["rows"] if r_["r"] == "gs")
        judged += 1
        if starts != len(runs_):
            run.violation({"clause": "rg", "universe": "long-graph-runs", "entry": "stream_frames", "integ": integ},
                          f"runs of {[n for _, n in runs_]} consecutive quads with equal graph names were written under {starts} graph starts instead of {len(runs_)}",
                          {"runs": [n for _, n in runs_], "graph_starts": starts})
    if tot["entries"] == 0:
        env.machinery_failure("C19: no lookup entries seen in any judged stream (vacuous)")
    return run.finish({
        "states": states + stats["judge"].get("states", 0), "transitions": trans + stats["judge"].get("transitions", 0),
        "traces_validated_against_impl": judged, "samples": samples, "exhaustive": False,
        "audit_totals": tot, "slices": cov, "simulation": stats["sim"], "judge": stats["judge"],
        "explanation": "audit clauses of spec/JellyReader.tla (policy-independent: any eviction policy passes) evaluated by TLC on every row of "
                       "every stream the real serializer produced; the model composition PyWriter o JellyReader checks the same clauses (Tight:*) exhaustively",
    })
