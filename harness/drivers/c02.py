"""C02 -- rdflib Graph/Dataset round trip preserves the RDF data."""
from __future__ import annotations

import io
import random
from concurrent.futures import ThreadPoolExecutor

from .. import campaign, env, impl, report, terms, tlc, universes as U, wire, writer
from .c04 import rdf_norm
from .common import slices_summary


def build_store(stmts, dataset: bool, raw_lex: bool):
    """rdflib Graph / Dataset holding the statements; raw_lex keeps non-canonical lexical forms (normalize=False)."""
    import rdflib  # noqa: PLC0415
    from rdflib.graph import Dataset, Graph  # noqa: PLC0415

    def term(t):
        if t[0] == "lit" and raw_lex:
            return rdflib.Literal(t[1], lang=t[2] or None, datatype=(rdflib.URIRef(t[3]) if t[3] else None), normalize=False)
        return terms.to_rdflib(t)

    if dataset:
        ds = Dataset()
        for st in stmts:
            ctx = ds.default_context if st[3] == ("dg",) else ds.get_context(terms.to_rdflib(st[3]))
            ctx.add((term(st[0]), term(st[1]), term(st[2])))
        return ds
    g = Graph()
    for st in stmts:
        g.add((term(st[0]), term(st[1]), term(st[2])))
    return g


def _safe(fn, *a, **kw):
    try:
        return fn(*a, **kw)
    except Exception as ex:  # noqa: BLE001
        return f"EXC:{type(ex).__name__}:{str(ex)[:160]}"


def parse_into_store(data, dataset: bool):
    from rdflib.graph import Dataset, Graph  # noqa: PLC0415

    store = Dataset() if dataset else Graph()
    store.parse((io.BytesIO(data) if isinstance(data, (bytes, bytearray)) else data), format="jelly")
    return impl._items_of_rdflib_store(store)


def main(tier: str) -> int:
    run = report.Run("C02", "model_checking", tier)
    seed = env.seed()
    rnd = random.Random(seed)
    slices = {k: U.QUICK_SLICES[k] for k in ("pfx", "quads", "graphs")} if tier == "quick" else U.THOROUGH_SLICES
    res = campaign.run_slices(slices, timeout=1500)
    states, trans, cov = slices_summary(run, res, "C02")
    # state graph of the serializer with the rdflib term encoder under the Stream (RDF 1.1 slices): every reachable state x every public call,
    # each real edge judged by TLC (Tier-1 inductive step on the real rows; equality with PyWriter)
    from .. import writergraph as wg  # noqa: PLC0415

    graph = {}
    plan = {"flow2": None, "nameq": None, "flow3g": 1, "wg-c18pq": None, "wg-c18g": 1} if tier == "quick" else \
           {"flow2": None, "nameq": None, "ns": None, "flow3g": 2, "pfx": None, "flow1": None, "flow1q": None, "wg-c18p": None, "wg-c18pq": None, "wg-c18g": 2}
    for name, body_max in plan.items():
        st_, gst = wg.compare_slice(run, name, wg.slice_consts(name), body_max, integ="rdflib")
        if st_ is None:
            break
        graph[name] = st_
        states += gst["states"]
        trans += gst["transitions"]
    n_beh = 35 if tier == "quick" else 400
    unis = ["r11-triples", "r11-quads", "r11-graphs"]

    def sim(k):
        return k, writer.simulate(U.SIM[k], num=n_beh, hist_len=(20 if tier == "quick" else 40), seed=seed + 2)

    with ThreadPoolExecutor(4) as ex:
        sims = dict(ex.map(sim, unis))
    subs = writer.substitutions(seed)
    cases, traces = [], []
    refused = 0
    for uni in unis:
        behs, r = sims[uni]
        c = U.SIM[uni]
        dataset = c["PType"] != 1
        for bi, beh in enumerate(behs):
            sub = subs[bi % len(subs)]
            raw_lex = bi % 2 == 0
            stmts, g = [], None
            for op in beh["hist"]:
                if op["op"] == "gs":
                    g = writer.abs_term(op["g"], sub)
                elif op["op"] == "stmt":
                    st = tuple(writer.abs_term(t, sub) for t in op["st"])
                    if raw_lex:
                        st = tuple(("lit", "01", "", "http://www.w3.org/2001/XMLSchema#integer") if (t[0] == "lit" and t[1] == "1" and t[3] == "d:a") else t for t in st)
                    stmts.append(st + ((g,) if c["PType"] == 3 else ()))
            if not stmts:
                continue
            if bi % 5 == 4:
                # datatype table disabled: only plain, language-tagged and xsd:string-typed literals (none of which needs a datatype entry)
                XS = "http://www.w3.org/2001/XMLSchema#string"
                stmts = [tuple((("lit", t[1], "", XS) if (t[0] == "lit" and t[3]) else t) for t in st) for st in stmts]
            store = build_store(stmts, dataset, raw_lex)
            want = impl._items_of_rdflib_store(store)                    # the data as rdflib itself reports it
            preset = rnd.choice([(c["MaxN"], c["MaxP"], c["MaxD"]), (4000, 150, 32), (16, 0, 4)])
            if bi % 5 == 4:
                preset = (c["MaxN"], c["MaxP"], 0)
            # tables smaller than one statement's needs (C18): the serializer may refuse, but whatever it writes must still be the data
            undersized = bi % 5 == 3
            if undersized:
                preset = (c["MaxN"], rnd.choice([1, 2, 3]), rnd.choice([1, c["MaxD"]]))
            fs = rnd.choice([1, 2, 5, 250])
            variants = []
            if not dataset:
                variants += [("graph_serialize", "triple", 1, True), ("graph_serialize", "triple", 1, False), ("graph_serialize", "triple", 3, True),
                             ("graph_serialize-guess", "triple", 1, True), ("flat_to_file", "triple", 1, True), ("grouped_to_file", "triple", 3, True)]
            else:
                variants += [("graph_serialize", "quad", 2, True), ("graph_serialize", "quad", 2, False), ("graph_serialize", "graph", 2, True),
                             ("graph_serialize", "graph", 2, False), ("graph_serialize", "quad", 4, True), ("graph_serialize", "graph", 4, True),
                             ("graph_serialize-guess", "quad", 2, True), ("flat_to_file", "quad", 2, True), ("grouped_to_file", "quad", 4, True),
                             ("stream_frames-iter", "graph", 2, True)]
            # namespace declarations on: rdflib binds ~30 namespaces by default, far more than these prefix tables hold; the DATA must come back all the same
            nsdecl = bi % 4 == 1
            for entry, sclass, lt, delimited in (variants if tier == "thorough" else rnd.sample(variants, 3)):
                cfg = impl.default_cfg(integ="rdflib", entry=entry.split("-")[0], sclass=sclass, ltype=lt, delimited=delimited, frame_size=fs, preset=preset,
                                       gen=False, star=False, dataset=dataset, guess=entry.endswith("guess"), as_sink=not entry.endswith("iter"),
                                       nsdecl=(nsdecl and not entry.endswith("guess")))
                if entry == "graph_serialize" and sclass != "graph" and lt in (1, 2) and bi % 2:
                    # the frame size given through an explicit flow object (also for non-delimited output: several bare frames concatenate to one message)
                    cfg.update(flow=("flat_triples" if sclass == "triple" else "flat_quads"), options_frame_size=250)
                key = {"universe": uni, "entry": entry, "sclass": sclass, "ltype": impl.LT_NAMES[lt], "delimited": delimited, "sub": sub.label, "raw_lex": raw_lex,
                       "nsdecl": cfg["nsdecl"], "flow": cfg.get("flow") or "inferred"}
                rp = {"statements": stmts, "cfg": cfg}
                out = io.BytesIO()
                try:
                    if cfg["entry"] == "graph_serialize":
                        kw = {} if cfg["guess"] else {"options": impl.make_options(cfg)}
                        if not cfg["guess"]:
                            kw["stream"] = impl.make_stream(cfg, kw["options"])
                        store.serialize(destination=out, format="jelly", **kw)
                    elif cfg["entry"] == "flat_to_file":
                        from pyjelly.integrations.rdflib import serialize as rser  # noqa: PLC0415
                        from pyjelly.integrations.rdflib.parse import Quad, Triple  # noqa: PLC0415

                        it = (Quad(s, p, o, g_.identifier if hasattr(g_, "identifier") else g_) for s, p, o, g_ in store.quads()) if dataset else (Triple(*t) for t in store)
                        rser.flat_stream_to_file(it, out, impl.make_options(cfg))
                    elif cfg["entry"] == "grouped_to_file":
                        from pyjelly.integrations.rdflib import serialize as rser  # noqa: PLC0415

                        rser.grouped_stream_to_file((s for s in [store]), out, options=impl.make_options(cfg))
                    else:
                        from pyjelly.integrations.rdflib import serialize as rser  # noqa: PLC0415
                        from pyjelly.integrations.rdflib.parse import Quad  # noqa: PLC0415

                        stream = impl.make_stream(cfg)
                        it = (Quad(s, p, o, g_.identifier if hasattr(g_, "identifier") else g_) for s, p, o, g_ in store.quads())
                        for fr in rser.stream_frames(stream, it):
                            impl.write_delimited(fr, out)
                    data = out.getvalue()
                except Exception as ex:  # noqa: BLE001
                    if undersized and type(ex).__name__ == "JellyConformanceError":      # (the exception TYPE, never the wording of its message)
                        refused += 1
                        continue
                    run.violation({"clause": "serializer-raised", **key}, f"{type(ex).__name__}: {ex}", rp)
                    continue
                really_delimited = delimited if cfg["entry"] == "graph_serialize" else True
                try:
                    frames = wire.dec_stream(data, delimited=really_delimited)
                except wire.WireError as ex:
                    run.violation({"clause": "output-undecodable", **key}, str(ex), rp)
                    continue
                case = {"key": key, "rp": rp, "want": want, "data": data, "dataset": dataset}
                cases.append(case)
                traces.append({"id": len(cases) - 1, "rows": terms.jrows_of_frames(frames), "mode": ("none" if cfg["nsdecl"] else "set"),
                               "exp": [terms.jitem(terms.norm_item(x)) for x in dict.fromkeys(want)]})
                case["back"] = {
                    "Graph.parse": _safe(parse_into_store, data, dataset),
                    "parse_jelly_to_graph": _safe(impl.parse, "rdflib", data, "to_graph"),
                    "parse_jelly_flat": _safe(impl.parse, "rdflib", data, "flat"),
                }
                for label, src in impl.other_sources(data):
                    case["back"]["Graph.parse<-" + label] = _safe(parse_into_store, src, dataset)
    # a graph large enough to assign the LAST id of 4096-entry tables (and to cross the one-byte varint limit of ids)
    for preset, nn in (((4096, 150, 32), 4200), ((129, 16, 4), 300)):
        I_ = lambda x: ("iri", x)  # noqa: E731
        stmts = [(I_(f"http://p{i % 140}.example/ns/n{i}"), I_(f"http://p{i % 7}.example/ns/pred{i % 11}"),
                  (("lit", str(i), "", f"http://dt.example/t{i % 40}") if i % 3 == 0 else I_(f"http://p{(i + 1) % 140}.example/ns/n{(i * 5 + 2) % nn}"))) for i in range(nn)]
        store = build_store(stmts, False, False)
        want = impl._items_of_rdflib_store(store)
        cfg = impl.default_cfg(integ="rdflib", entry="graph_serialize", sclass="triple", ltype=1, preset=preset, gen=False, star=False, frame_size=250)
        key = {"universe": f"long-{preset[0]}", "entry": "graph_serialize", "sclass": "triple", "ltype": "FLAT_TRIPLES", "delimited": True, "sub": "none", "raw_lex": False}
        rp = {"cfg": cfg, "statements": f"{nn} generated statements"}
        out = io.BytesIO()
        try:
            opts = impl.make_options(cfg)
            store.serialize(destination=out, format="jelly", options=opts, stream=impl.make_stream(cfg, opts))
            data = out.getvalue()
            frames = wire.dec_stream(data, delimited=True)
        except Exception as ex:  # noqa: BLE001
            run.violation({"clause": "serializer-raised", **key}, f"{type(ex).__name__}: {ex}", rp)
            continue
        case = {"key": key, "rp": rp, "want": want, "data": data, "dataset": False}
        cases.append(case)
        traces.append({"id": len(cases) - 1, "rows": terms.jrows_of_frames(frames), "mode": "set", "exp": [terms.jitem(terms.norm_item(x)) for x in dict.fromkeys(want)]})
        case["back"] = {"Graph.parse": _safe(parse_into_store, data, False), "parse_jelly_flat": _safe(impl.parse, "rdflib", data, "flat")}
    # the plugin's calling conventions: bytes returned (encoding="jelly"), a path as destination, parse by path / by file extension / by MIME type / from data=
    import os  # noqa: PLC0415
    import tempfile  # noqa: PLC0415
    from rdflib.graph import Dataset as _DS, Graph as _G  # noqa: PLC0415

    conv = 0
    for case in list(cases)[:: (7 if tier == "quick" else 2)]:
        if case["key"].get("entry") != "graph_serialize" or not case["key"].get("delimited", True):
            continue
        dataset = case["dataset"]
        store = build_store(case["rp"]["statements"], dataset, False) if isinstance(case["rp"].get("statements"), list) else None
        if store is None:
            continue
        want_c = {rdf_norm(x) for x in impl._items_of_rdflib_store(store)}
        key_c = dict(case["key"], entry="plugin-conventions")
        with tempfile.TemporaryDirectory(dir=env.workdir()) as d_:
            path = os.path.join(d_, "out.jelly")
            results = {}
            try:
                b1 = store.serialize(format="jelly", encoding="jelly")
                store.serialize(destination=path, format="jelly")
                b2 = open(path, "rb").read()
                for how, fn in (("bytes-returned:data=", lambda t: t.parse(data=b1, format="jelly")), ("path:format=jelly", lambda t: t.parse(path, format="jelly")),
                                ("path:by-extension", lambda t: t.parse(path)), ("file:mime-type", lambda t: t.parse(source=open(path, "rb"), format="application/x-jelly-rdf"))):  # noqa: SIM115
                    t_ = _DS() if dataset else _G()
                    fn(t_)
                    results[how] = {rdf_norm(x) for x in impl._items_of_rdflib_store(t_)}
                if not isinstance(b1, bytes) or not b2:
                    results["serialize"] = "no bytes"
            except Exception as ex:  # noqa: BLE001
                run.violation({"clause": "plugin-convention-raised", **key_c}, f"{type(ex).__name__}: {str(ex)[:120]}", case["rp"])
                continue
        conv += 1
        for how, got_c in results.items():
            if got_c != want_c:
                run.violation({"clause": "round-trip-differs", "parse": how, **key_c}, f"{how}: {len(got_c) if not isinstance(got_c, str) else got_c} vs {len(want_c)} statements", case["rp"])
    # an empty Graph / Dataset through every rdflib entry point
    for ec in campaign.empty_sequence_cases("rdflib"):
        if ec.exc:
            run.violation({"clause": "serializer-raised", **ec.key}, ec.exc, ec.replay)
        elif ec.verdict and ec.verdict["verdict"] != "ok":
            run.violation({"clause": "tier1:" + ec.verdict["verdict"], **ec.key}, f"an empty input gives {len(ec.data)} bytes, which are not a valid stream denoting nothing: "
                          f"{ec.verdict['verdict']}; parsing them back: {str(ec.back.get('flat'))[:80]}", ec.replay)
        elif ec.back.get("flat") != []:
            run.violation({"clause": "round-trip-differs", **ec.key}, f"an empty input parses back as {str(ec.back.get('flat'))[:80]}", ec.replay)
    verdicts = tlc.judge(traces)
    jst = verdicts.pop("__stats__")
    samples = []
    for i, case in enumerate(cases):
        key, rp = case["key"], case["rp"]
        v = verdicts[i]
        if v["verdict"] != "ok":
            run.violation({"clause": "tier1:" + v["verdict"], **key}, f"bytes do not denote the graph/dataset: {v['verdict']} at row {v['at']}", rp)
        want = {rdf_norm(x) for x in case["want"]}
        for how, back in case["back"].items():
            if isinstance(back, str):
                run.violation({"clause": "parse-raised", "parse": how, **key}, back, rp)
                continue
            got = {rdf_norm(x) for x in back if x[0] != "ns"}
            if got != want:
                a, b = sorted(want - got)[:1], sorted(got - want)[:1]
                run.violation({"clause": "round-trip-differs", "parse": how, **key}, f"lost {a}, gained {b} ({len(want)} vs {len(got)} statements)", rp)
        if len(samples) < 3:
            samples.append({"key": key, "statements": len(case["want"]), "bytes": len(case["data"])})
    from .. import usage as _usage  # noqa: PLC0415

    usage_cov = _usage.write_lattice(run, "rdflib")
    return run.finish({
        "usage_lattice": usage_cov,
        "states": states + jst["states"], "transitions": trans + jst["transitions"], "traces_validated_against_impl": len(traces), "samples": samples,
        "exhaustive": False, "slices": cov, "cases": len(cases), "undersized_tables_refused": refused, "plugin_conventions_round_trips": conv, "state_graph_comparison_rdflib_encoder": graph,
        "explanation": "state graph of the serializer under the rdflib term encoder (every reachable state x every call of RDF 1.1 slices, Tier-1 inductive step judged by TLC on each real edge); RDF 1.1 behaviours of PyWriter (TLC simulation; default/IRI/bnode graph names, plain/lang/typed objects incl. xsd:string and non-canonical lexical forms) "
                       "are built as rdflib Graph/Dataset and written through Graph.serialize (TripleStream / QuadStream / GraphStream, flat and grouped logical types, delimited and "
                       "non-delimited flat), flat_/grouped_stream_to_file and stream_frames; the bytes are judged by TLC as a SET against what rdflib reports as the input and parsed "
                       "back through Graph.parse / Dataset.parse, parse_jelly_to_graph and parse_jelly_flat; every fifth behaviour is written with prefix/datatype tables smaller "
                       "than one statement may need (refusal allowed, silent corruption not)",
    })
