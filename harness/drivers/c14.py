"""C14 -- namespace declarations round-trip and never affect statements."""
from __future__ import annotations

import random

from .. import campaign, env, impl, report, terms, tlc, universes as U, wire, writer
from .common import slices_summary


def _ns_rows(frames):
    return [r for fr in frames for r in fr["rows"] if r["r"] == "ns"]


def _safe(fn, *a, **kw):
    try:
        return fn(*a, **kw)
    except Exception as ex:  # noqa: BLE001
        return f"EXC:{type(ex).__name__}:{str(ex)[:120]}"


def main(tier: str) -> int:
    run = report.Run("C14", "model_checking", tier)
    seed = env.seed()
    rnd = random.Random(seed)
    slices = {k: v for k, v in U.QUICK_SLICES.items() if k in ("ns",)}
    slices["ns-evict"] = writer.consts(MaxP=1, NsDecl=True, NsPool="NsSmall", PoolS="FlS", PoolP="FlP", PoolO="FlO")
    slices["ns-quads"] = writer.consts(MaxP=2, PType=2, NsDecl=True, NsPool="NsSmall", PoolS="FlS", PoolP="FlP", PoolO="FlO", PoolG="FlG")
    res = campaign.run_slices(slices, timeout=600)
    states, trans, cov = slices_summary(run, res, "C14")

    n_beh = 40 if tier == "quick" else 400
    sims = {}
    for name, c in (("mix-ns", U.SIM["mix-ns"]),
                    ("mix-ns-t", dict(U.SIM["mix-ns"], PType=1, PoolG="Empty", MaxP=3)),
                    ("mix-ns-g", dict(U.SIM["mix-ns"], PType=3))):
        sims[name] = (c, writer.simulate(c, num=n_beh, hist_len=16, seed=seed + 14)[0])
    subs = writer.substitutions(seed)
    traces, cases = [], []

    def add_trace(case, data, delimited, items, label):
        frames = wire.dec_stream(data, delimited=delimited)
        case.setdefault("frames", {})[label] = frames
        traces.append({"id": len(traces), "rows": terms.jrows_of_frames(frames), "mode": "seq",
                       "exp": [terms.jitem(terms.norm_item(it)) for it in items]})
        case.setdefault("trace_ids", {})[label] = len(traces) - 1

    for uni, (c, behs) in sims.items():
        ptype = c["PType"]
        preset = (c["MaxN"], c["MaxP"], c["MaxD"])
        for bi, beh in enumerate(behs):
            sub = subs[bi % len(subs)]
            # (1) direct: Stream.namespace_declaration interleaved with statements, exactly the model's behaviour
            r1 = writer.replay_stepwise(beh, c, sub)
            case = {"key": {"universe": uni, "integ": "generic", "entry": "stepwise", "sub": sub.label}, "kind": "stepwise",
                    "items": r1["accepted"], "data": r1["bytes"],
                    "replay": {"behaviour": beh["hist"], "consts": c, "sub": sub.label}}
            if r1["rejected"]:
                run.violation({"clause": "writer-refused-declaration-or-statement", **case["key"]},
                              f"the writer raised on a behaviour every row of which fits the tables: {r1['rejected'][:2]}", case["replay"])
            d = writer.compare_rows(beh, r1["per_op"], sub, U.PFX_ATOMS)
            if d:
                run.model_drift(f"{case['key']}: rows differ from PyWriter at op {d[0]}")
            add_trace(case, r1["bytes"], True, r1["accepted"], "w")
            case["back"] = _safe(impl.parse, "generic", r1["bytes"], "flat")
            cases.append(case)
            # (2) bindings on the source object, through the integrations' entry points
            stmts, binds = [], {}
            g = None
            for op in beh["hist"]:
                if op["op"] == "gs":
                    g = writer.abs_term(op["g"], sub)
                elif op["op"] == "stmt":
                    st = tuple(writer.abs_term(t, sub) for t in op["st"])
                    stmts.append(st + ((g,) if ptype == 3 else ()))
                elif op["op"] == "ns":
                    binds[sub.o(op["ns"][0])] = sub.iri(op["ns"][1], op["ns"][2])
            if not stmts:
                continue
            nss = list(binds.items())
            if bi % 2:
                # labels for namespaces that rdflib pre-binds under OTHER labels on every default Graph/Dataset, and many bindings at once
                nss += [("sdo", "https://schema.org/"), ("dct", "http://purl.org/dc/terms/")] + [(f"p{k}", f"http://many.example/{k}#") for k in range(9)]
            sclass = {1: "triple", 2: "quad", 3: "graph"}[ptype]
            for integ in ("generic", "rdflib"):
                if integ == "rdflib" and any(not iri for _, iri in nss):
                    nss_i = [(a, b) for a, b in nss if b]       # rdflib refuses to bind an empty namespace IRI
                else:
                    nss_i = nss
                entry = "stream_frames" if integ == "generic" else "graph_serialize"
                cfg = impl.default_cfg(integ=integ, entry=entry, sclass=sclass, ltype=(1 if ptype == 1 else 2), preset=preset,
                                       nsdecl=True, gen=(integ == "generic"), star=(integ == "generic"),
                                       frame_size=rnd.choice([1, 3, 250]), dataset=(ptype != 1), version=(None, 1, 2)[bi % 3])
                case = {"key": {"universe": uni, "integ": integ, "entry": entry, "sub": sub.label}, "kind": "bound", "integ": integ,
                        "stmts": stmts, "cfg": cfg,
                        "replay": {"cfg": cfg, "statements": stmts, "namespaces": nss_i}}
                if integ == "rdflib":
                    store = impl.rdflib_container(stmts, nss_i, dataset=(ptype != 1))
                    case["declared"] = [("ns", str(a), str(b)) for a, b in store.namespaces()]   # incl. rdflib's own defaults
                else:
                    case["declared"] = [("ns", a, b) for a, b in nss_i]
                on = _safe(impl.serialize, cfg, stmts, nss_i)
                off = _safe(impl.serialize, dict(cfg, nsdecl=False), stmts, nss_i)
                case["on"], case["off"] = on, off
                if isinstance(on, bytes) and on:
                    mode_items = case["declared"] + (stmts if integ == "generic" else [])
                    frames = wire.dec_stream(on, delimited=True)
                    case["frames_on"] = frames
                    if integ == "generic":
                        add_trace(case, on, True, mode_items, "on")
                    case["back_on"] = _safe(impl.parse, integ, on, "flat")
                    case["graph_on"] = _safe(impl.parse, integ, on, "to_graph")
                    if integ == "rdflib":
                        def sink_bindings(on=on):
                            from pyjelly.integrations.rdflib import parse as rp  # noqa: PLC0415
                            import io as _io  # noqa: PLC0415
                            g_ = rp.parse_jelly_to_graph(_io.BytesIO(on))
                            grouped_ = list(rp.parse_jelly_grouped(_io.BytesIO(on)))
                            return {(str(a), str(b)) for a, b in g_.namespaces()}, [{(str(a), str(b)) for a, b in x.namespaces()} for x in grouped_]
                        case["sink_bindings"] = _safe(sink_bindings)
                    # second generation: re-serialize what was read
                    if integ == "generic" and not isinstance(case["back_on"], str):
                        read_ns = [(it[1], it[2]) for it in case["back_on"] if it[0] == "ns"]
                        read_st = [it for it in case["back_on"] if it[0] != "ns"]
                        if all(not b.startswith("<<") for _, b in read_ns):
                            gen2 = _safe(impl.serialize, cfg, read_st, read_ns)
                            case["gen2"] = gen2
                if isinstance(off, bytes) and off:
                    case["frames_off"] = wire.dec_stream(off, delimited=True)
                    case["back_off"] = _safe(impl.parse, integ, off, "flat")
                cases.append(case)
                # (3) the same statements as a plain ITERATOR (nothing to declare): switching declarations on must change nothing but the version
                if bi % 3 == 0:
                    for entry_i in (("stream_frames", "flat_to_file") if ptype != 3 else ("stream_frames",)):
                        cfg_i = dict(cfg, entry=entry_i, as_sink=False)
                        key_i = {"universe": uni, "integ": integ, "entry": entry_i + "-iterator", "sub": sub.label}
                        rp_i = {"cfg": cfg_i, "statements": stmts}
                        on_i = _safe(impl.serialize, cfg_i, stmts)
                        off_i = _safe(impl.serialize, dict(cfg_i, nsdecl=False), stmts)
                        for w, d_ in (("on", on_i), ("off", off_i)):
                            if isinstance(d_, str):
                                run.violation({"clause": "serializer-raised", **key_i}, f"statement iterator, nsdecl={w}: {d_}", rp_i)
                        if isinstance(on_i, bytes) and isinstance(off_i, bytes):
                            b_on, b_off = _safe(impl.parse, integ, on_i, "flat"), _safe(impl.parse, integ, off_i, "flat")
                            if isinstance(b_on, str) or isinstance(b_off, str):
                                run.violation({"clause": "parse-raised", **key_i}, str(b_on if isinstance(b_on, str) else b_off), rp_i)
                            elif sorted(map(repr, (terms.norm_item(x) for x in b_on))) != sorted(map(repr, (terms.norm_item(x) for x in b_off))):
                                run.violation({"clause": "statements-affected", **key_i}, "statement iterator: what is read back differs between nsdecl on and off", rp_i)

    # several graphs / datasets written through ONE stream (grouped serialization), each with bindings of its own: every sink's bindings are declared
    I_ = lambda x: ("iri", x)  # noqa: E731
    for integ in ("generic", "rdflib"):
        for quads in (False, True):
            groups, binds = [], []
            for k in range(3):
                st = (I_(f"http://e{k}.example/s"), I_(f"http://e{k}.example/p"), ("lit", f"v{k}", "", ""))
                groups.append([st + ((I_(f"http://g.example/{k}"),) if quads else ())])
                binds.append([(f"own{k}", f"http://e{k}.example/"), ("shared", "http://shared.example/ns#")] + ([("üml", "urn:x:")] if k == 2 else []))
            key = {"universe": "grouped-sinks", "integ": integ, "entry": "grouped_to_file", "sub": "none", "quads": quads}
            rp = {"groups": groups, "bindings": binds}
            try:
                mod = __import__(f"pyjelly.integrations.{integ}.serialize", fromlist=["grouped_stream_to_file"])
                sinks = [(impl.generic_sink(g, b) if integ == "generic" else impl.rdflib_container(g, b, dataset=quads)) for g, b in zip(groups, binds)]
                declared = []
                for sk, b in zip(sinks, binds):
                    declared += [("ns", a, c) for a, c in b] if integ == "generic" else [("ns", str(a), str(c)) for a, c in sk.namespaces()]
                import io as _io  # noqa: PLC0415
                out_ = _io.BytesIO()
                cfg_g = impl.default_cfg(integ=integ, sclass=("quad" if quads else "triple"), ltype=(4 if quads else 3), nsdecl=True, preset=(64, 16, 4),
                                         gen=(integ == "generic"), star=(integ == "generic"))
                mod.grouped_stream_to_file((s_ for s_ in sinks), out_, options=impl.make_options(cfg_g))
                got = [it for it in impl.parse(integ, out_.getvalue(), "flat") if it[0] == "ns"]
            except Exception as ex:  # noqa: BLE001
                run.violation({"clause": "serializer-raised", **key}, f"{type(ex).__name__}: {str(ex)[:120]}", rp)
                continue
            if got != declared:
                missing = [d for d in declared if d not in got]
                run.violation({"clause": "declarations-differ", **key},
                              f"{len(declared)} bindings on three sinks written through one stream, the reader received {len(got)}; e.g. missing {missing[:2]}", rp)
    verdicts = tlc.judge(traces)
    jstats = verdicts.pop("__stats__")
    samples = []
    for case in cases:
        key, rp = case["key"], case["replay"]
        for label, tid in case.get("trace_ids", {}).items():
            v = verdicts[tid]
            if v["verdict"] != "ok":
                run.violation({"clause": "wire:" + v["verdict"], **key},
                              f"the declarations/statements on the wire are not what was declared: {v['verdict']} at row {v['at']}", rp)
        if case["kind"] == "stepwise":
            back = case["back"]
            want = [terms.norm_item(x) for x in case["items"]]
            if isinstance(back, str):
                run.violation({"clause": "parse-raised", **key}, back, rp)
            elif [terms.norm_item(x) for x in back] != want:
                bad = next((b for a, b in zip(want, back) if a != terms.norm_item(b)), None)
                run.violation({"clause": "read-side", **key}, f"reader was not given what the stream declares: e.g. {bad!r}", rp)
            continue
        for w in ("on", "off"):
            if isinstance(case[w], str):
                run.violation({"clause": "serializer-raised", **key}, f"nsdecl={w}: {case[w]}", rp)
        if not isinstance(case["on"], bytes) or not isinstance(case["off"], bytes):
            continue
        declared = case["declared"]
        # option off => no declaration on the wire
        if case.get("frames_off") and _ns_rows(case["frames_off"]):
            run.violation({"clause": "written-although-off", **key}, "namespace rows written although namespace_declarations is off", rp)
        if case.get("frames_on") is not None and len(_ns_rows(case["frames_on"])) != len(declared):
            run.violation({"clause": "count", **key}, f"{len(declared)} bindings declared, {len(_ns_rows(case['frames_on']))} namespace rows written", rp)
        # reader receives the same (prefix, IRI) in the same order
        back_on = case.get("back_on")
        if isinstance(back_on, str):
            run.violation({"clause": "parse-raised", **key}, back_on, rp)
            continue
        got_ns = [it for it in back_on if it[0] == "ns"]
        if got_ns != declared:
            bad = next(((a, b) for a, b in zip(declared, got_ns) if a != b), (declared[len(got_ns):][:1], got_ns[len(declared):][:1]))
            run.violation({"clause": "declarations-differ", **key}, f"declared {bad[0]!r}, reader received {bad[1]!r}", rp)
        # the bindings arrive on the sinks the graph-level parsers build (also when the sink already binds that IRI under another label)
        sb = case.get("sink_bindings")
        if isinstance(sb, str):
            run.violation({"clause": "parse-raised", **key}, sb, rp)
        elif sb is not None:
            want_pairs = {(a, b) for _, a, b in declared}
            missing = sorted(want_pairs - sb[0])
            if missing:
                run.violation({"clause": "binding-not-delivered-to-graph", **key},
                              f"parse_jelly_to_graph: declared {missing[:2]} is not bound on the resulting graph", rp)
            if sb[1] and sorted(want_pairs - set().union(*sb[1])):
                run.violation({"clause": "binding-not-delivered-to-grouped-sinks", **key},
                              f"parse_jelly_grouped: declared {sorted(want_pairs - set().union(*sb[1]))[:2]} bound on none of the sinks", rp)
        # statements identical with and without declarations
        st_on = [terms.norm_item(x) for x in back_on if x[0] != "ns"]
        back_off = case.get("back_off")
        if isinstance(back_off, str):
            run.violation({"clause": "parse-raised", **key}, back_off, rp)
        elif back_off is not None:
            st_off = [terms.norm_item(x) for x in back_off if x[0] != "ns"]
            same = (st_on == st_off) if case["integ"] == "generic" else (sorted(map(repr, st_on)) == sorted(map(repr, st_off)))
            if not same:
                run.violation({"clause": "statements-affected", **key}, "statements read back differ between nsdecl on and off", rp)
        # second generation reproduces the declarations
        gen2 = case.get("gen2")
        if isinstance(gen2, str):
            run.violation({"clause": "regeneration-raised", **key}, gen2, rp)
        elif isinstance(gen2, bytes):
            ns1 = [(r["name"], r.get("iri")) for r in _ns_rows(case["frames_on"])]
            ns2 = [(r["name"], r.get("iri")) for r in _ns_rows(wire.dec_stream(gen2, delimited=True))]
            back2 = _safe(impl.parse, case["integ"], gen2, "flat")
            got2 = [it for it in back2 if it[0] == "ns"] if not isinstance(back2, str) else back2
            if got2 != declared:
                run.violation({"clause": "regeneration-differs", **key}, f"re-serializing what was read gives different declarations: {str(got2)[:200]}", rp)
        if len(samples) < 3:
            samples.append({"key": key, "declared": declared[:3], "read": got_ns[:3]})
    return run.finish({
        "states": states + jstats["states"], "transitions": trans + jstats["transitions"],
        "traces_validated_against_impl": len(traces), "samples": samples or [{"cases": len(cases)}], "exhaustive": False,
        "slices": cov, "cases": len(cases),
        "explanation": "PyWriter.Namespace o JellyReader.RdNamespace closed by TLC on slices where declarations evict prefixes; simulated behaviours with "
                       "declarations replayed (a) through Stream.namespace_declaration and (b) as bindings on GenericStatementSink / rdflib Graph/Dataset through "
                       "stream_frames / Graph.serialize for TRIPLES, QUADS and GRAPHS; wire judged by TLC; reader side, on/off equivalence and regeneration compared",
    })
