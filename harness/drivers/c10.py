"""C10 -- a truncated stream yields only a correct prefix of the data."""
from __future__ import annotations

import io
import json
import os
import random
from concurrent.futures import ThreadPoolExecutor

from .. import env, framing, impl, producer, report, terms, tlc, universes as U, wire, writer
from .c04 import rdf_norm
from .c16 import drain


def judge_truncations(records):
    path = os.path.join(env.workdir(), f"trunc-{os.getpid()}.json")
    with open(path, "w") as f:
        json.dump(records, f)
    r = tlc.run("TraceFraming", "INIT Init\nNEXT Next\nCHECK_DEADLOCK FALSE\n", workers=1, timeout=900, env_extra={"TRACE_FILE": path})
    os.unlink(path)
    out = {}
    for p in r.printed("VERDICT"):
        v = json.loads(p)
        out[v["id"]] = v
    missing = [x["id"] for x in records if x["id"] not in out]
    if missing or not r.ok:
        env.machinery_failure(f"C10: TraceFraming gave no verdict for {missing[:5]}: {r.errors[:2]}\n" + "\n".join(r.out.splitlines()[-15:]))
    return out, r


def main(tier: str) -> int:
    run = report.Run("C10", "fault_enumeration", tier)
    seed = env.seed()
    # --- the model: every cut of small concrete streams, all read schedules
    shapes = [((5, 4, 6), 3), ((0, 7, 3), 4), ((130, 2), 6), ((10, 10), 8)]
    jobs = [(lens, r, cut) for lens, r in shapes for cut in range(0, sum(lens) + len(lens) + (1 if max(lens) > 127 else 0) + 1)]
    if tier == "quick":
        jobs = [j for j in jobs if j[2] <= 24 or j[2] % 7 == 0]

    def mc(job):
        lens, r, cut = job
        total = sum(lens) + sum(2 if x > 127 else 1 for x in lens)
        if cut > total:
            return job, None
        return job, framing.run_framing(f"MCT{abs(hash(job)) % 10**8}", delimited=True, frame_lens=lens, first_row_len=r, cut=cut, peek_once=False,
                                        chunks=(1, 3), invariants=("PrefixOnly", "NeverMore"), hist_reads=0, workers=2)

    with ThreadPoolExecutor(8) as ex:
        models = [m for m in ex.map(mc, jobs) if m[1] is not None]
    states = trans = 0
    for job, r in models:
        if r.violated or not r.ok:
            env.machinery_failure(f"C10: PyFraming cut model {job}: {r.violated or r.errors[:2]} (a prediction to be replayed, not a verdict)")
        states += r.distinct
        trans += r.generated
    # --- real delimited streams, every byte offset
    streams = []
    for uni, fs in (("r11-triples", 1), ("r11-quads", 2), ("r11-graphs", 3), ("mix-triples", 2), ("mix-ns", 2)):
        c = U.SIM[uni]
        behs, _ = writer.simulate(c, num=(2 if tier == "quick" else 20), hist_len=(7 if tier == "quick" else 10), seed=seed + 10)
        for beh in behs:
            res = writer.replay_stepwise(beh, c, writer.Subst(), delimited=True, frame_size=fs)
            streams.append((f"pyjelly:{uni}/fs{fs}", res["bytes"], "rdflib" if uni.startswith("r11") else "generic"))
    # frames of 128 bytes and more: the length prefix itself has 2 (or 3) bytes and can be cut in the middle
    real = [x for x in writer.substitutions(seed) if x.label == "realistic"][0]
    for uni, fs, n in (("r11-triples", 6, 14), ("r11-quads", 9, 20)) + ((("mix-triples", 400, 900),) if tier == "thorough" else ()):
        c = U.SIM[uni]
        behs, _ = writer.simulate(c, num=(1 if tier == "quick" else 4), hist_len=n, seed=seed + 1010)
        for beh in behs[:(1 if tier == "quick" else 4)]:
            res = writer.replay_stepwise(beh, c, real, delimited=True, frame_size=fs)
            streams.append((f"pyjelly:{uni}/fs{fs}/long-iris", res["bytes"], "rdflib" if uni.startswith("r11") else "generic"))
    for name, c in producer.configs(rdf11=True)[::3]:          # small tables, one configuration per physical type
        behs, _ = producer.simulate(c, num=(3 if tier == "quick" else 15), seed=seed + 100, hist_len=12)
        for beh in behs[: (2 if tier == "quick" else 10)]:
            streams.append((f"reference:{name}", producer.to_bytes(producer.frames_of(beh["rows"]), True), "rdflib"))
    # a frame larger than the 1 MiB read chunk of the frame reader, ending in a long literal: cuts inside the later chunks
    big = ("lit", "L" * (1_400_000 if tier == "quick" else 2_300_000), "", "")
    I_ = lambda x: ("iri", x)  # noqa: E731
    big2 = ("lit", "M" * 1_150_000, "", "")
    big_stmts = [(I_("http://e/s1"), I_("http://e/p"), ("lit", "first", "", "")), (I_("http://e/s2"), I_("http://e/p"), big),
                 (I_("http://e/s3"), I_("http://e/p"), ("lit", "between", "", "")), (I_("http://e/s4"), I_("http://e/p"), big2),
                 (I_("http://e/s5"), I_("http://e/p"), ("lit", "after", "", ""))]
    big_data = impl.serialize(impl.default_cfg(integ="generic", entry="flat_to_file", sclass="triple", ltype=1, frame_size=1, preset=(8, 4, 0)), big_stmts)
    big_frames = wire.dec_delimited(big_data)
    big_ends = [e for _, _, e in wire.frame_extents(big_data)]
    big_counts = producer.denoting_per_frame(big_frames)
    big_full, big_exc = drain("generic", big_data)
    if big_exc is not None:
        run.violation({"clause": "complete-stream-does-not-parse", "integ": "generic", "cut_class": "none"},
                      f"the complete stream with a 1.4 MB frame does not parse: {big_exc}", {"stream": "large-frame"})
    second = [b for _, b, e in wire.frame_extents(big_data) if e - b > 2**20][-1]
    big_cuts = sorted({c for c in list(range(0, len(big_data), 131_072)) + [2**20 - 1, 2**20, 2**20 + 1, 2**20 + 70_000, len(big_data) - 2, len(big_data) - 1, len(big_data)]
                       + [second - 1, second, second + 1, second + 5, second + 1000, second + 2**20 - 1, second + 2**20, second + 2**20 + 10, second + 1_100_000]
                       + [e for e in big_ends] + [e - 1 for e in big_ends] if 0 <= c <= len(big_data)})
    big_records = []
    for cut in big_cuts:
        for source in ("BytesIO", "non-seekable"):
            src = io.BytesIO(big_data[:cut]) if source == "BytesIO" else framing.ChunkedRaw(big_data[:cut], [], then=65_536)
            from pyjelly.integrations.generic import parse as gp  # noqa: PLC0415
            got, exc = [], None
            try:
                for x in gp.parse_jelly_flat(src):
                    got.append(terms.item_from_generic(x))
            except Exception as ex:  # noqa: BLE001
                exc = f"{type(ex).__name__}: {str(ex)[:80]}"
            big_records.append((cut, source, got, exc))
    records, meta = [], []
    for cut, source, got, exc in big_records:
        rec = {"id": len(records), "ends": big_ends, "counts": big_counts, "cut": cut, "yielded": len(got),
               "prefixOK": [terms.norm_item(x) for x in got] == [terms.norm_item(x) for x in big_full[:len(got)]], "outcome": "raise" if exc else "eof"}
        records.append(rec)
        meta.append((f"pyjelly:large-frame/{source}", "generic", big_data[:64] + b"...", cut, exc))
    for label, data, also in streams:
        frames = wire.dec_delimited(data)
        ends = [e for _, _, e in wire.frame_extents(data)]
        counts = producer.denoting_per_frame(frames)
        for integ in ("generic", also) if also != "generic" else ("generic",):
            norm = rdf_norm if integ == "rdflib" else terms.norm_item
            full, exc = drain(integ, data)
            if exc is not None:
                run.violation({"clause": "complete-stream-does-not-parse", "integ": integ, "cut_class": "none"},
                              f"the complete (uncut) stream {label} does not parse: {exc}", {"stream": label, "hex": data.hex()[:2000]})
                continue
            full = [norm(x) for x in full]
            cuts = range(0, len(data) + 1)
            if len(data) > 4000:        # long streams: every frame boundary and its neighbourhood (incl. all length-prefix bytes) + a sample of payload offsets
                near = {c for e in [0] + ends for c in range(e - 2, e + 5) if 0 <= c <= len(data)}
                cuts = sorted(near | set(random.Random(seed + len(data)).sample(range(len(data) + 1), 1500)))
            for cut in cuts:
                got, exc = drain(integ, data[:cut])
                gotn = [norm(x) for x in got]
                rec = {"id": len(records), "ends": ends, "counts": counts, "cut": cut, "yielded": len(gotn),
                       "prefixOK": gotn == full[:len(gotn)], "outcome": "raise" if exc else "eof"}
                records.append(rec)
                meta.append((label, integ, data, cut, exc))
                if cut % 5 == 0 and 0 < cut < len(data):
                    # the same cut on a link that is LOST rather than closed: the read raises; every statement of the frames that arrived must have been handed over
                    got, exc = drain(integ, None, source=framing.LostLink(data[:cut], [], then=(7 if cut % 10 else 4096)))
                    gotn = [norm(x) for x in got]
                    records.append({"id": len(records), "ends": ends, "counts": counts, "cut": cut, "yielded": len(gotn),
                                    "prefixOK": gotn == full[:len(gotn)], "outcome": "raise" if exc else "eof"})
                    meta.append((label + "/lost-link", integ, data, cut, exc))
    verdicts, jr = judge_truncations(records)
    classes = set()
    samples = []
    for rec, (label, integ, data, cut, exc) in zip(records, meta):
        v = verdicts[rec["id"]]
        starts = [0] + rec["ends"][:-1]
        in_prefix = any(st < cut < st + (1 if e - st < 129 else 2 if e - st < 16386 else 3) for st, e in zip(starts, rec["ends"]))
        where = ("start" if cut == 0 else "first-three-bytes" if cut < 3 else "frame-boundary" if cut in rec["ends"] else
                 "inside-multibyte-length-prefix" if in_prefix else "inside-length-or-payload")
        classes.add((label.split("/")[0], integ, where, rec["outcome"]))
        if v["verdict"] != "ok":
            run.violation({"clause": v["verdict"], "integ": integ, "cut_class": where},
                          f"stream cut at byte {cut}/{len(data)} ({where}): parser yielded {rec['yielded']} items ({v['verdict']}), then {rec['outcome']}",
                          {"stream": label, "cut": cut, "hex": data.hex()[:4000], "frame_ends": rec["ends"], "items_per_frame": rec["counts"], "exception": exc})
        elif v["expect"] != rec["outcome"] and cut >= 3 and not label.endswith("/lost-link"):     # (a lost link always ends in the source's own exception)
            run.model_drift(f"cut {cut} ({where}) of {label}: expected the parser to {v['expect']}, it did {rec['outcome']}")
        if len(samples) < 3 and where == "inside-length-or-payload" and rec["yielded"] > 0:
            samples.append({"stream": label, "cut": cut, "of": len(data), "yielded": rec["yielded"], "outcome": rec["outcome"]})
    if not any(cls[2] == "inside-multibyte-length-prefix" for cls in classes):
        env.machinery_failure("C10: no cut inside a multi-byte length prefix was exercised (no frame of 128+ bytes)")
    return run.finish({
        "evaluations": len(records), "distinct_nontrivial": len({(m[0], m[1], m[3]) for m in meta}),
        "rule": "every byte offset 0..len of every real delimited stream (pyjelly output with frame sizes 1-3 for all physical types, and reference-encoder streams) is a cut; "
                "parse_jelly_flat is drained item by item and the record (frame extents, items per frame, cut, yielded, prefix, outcome) is judged by TLC (spec/TraceFraming.tla: "
                "prefix, completeness of delivered frames, nothing from an undelivered frame). distinct = (stream, integration, offset)",
        "samples": samples or [{"records": len(records)}], "cut_classes_seen": sorted(map(str, classes))[:24],
        "states": states + jr.distinct, "transitions": trans + jr.generated, "traces_validated_against_impl": len(records),
        "model": f"{len(models)} (stream shape, cut) configurations of spec/PyFraming.tla closed by TLC over all short-read schedules: PrefixOnly and NeverMore hold",
    })
