"""./check selftest -- demonstrates that the specification is bound to the code (not a property check).

 (a) spec mutants: one delta rule flipped in a copy of JellyReader must make REAL pyjelly traces fail
 (b) trace corruption: one id changed / one entry row dropped in a recorded trace must be rejected
 (c) the independent codec agrees with google.protobuf in both directions on pyjelly's own output
"""
from __future__ import annotations

import copy
import os
import shutil

from .. import env, impl, terms, tlc, universes as U, wire, writer

MUTANTS = [
    ("name zero = previous used (not +1)", "n == IF t.n = 0 THEN lnu + 1 ELSE t.n", "n == IF t.n = 0 THEN lnu ELSE t.n"),
    ("prefix zero = previous ASSIGNED", "p == IF t.p = 0 THEN lpu ELSE t.p", "p == IF t.p = 0 THEN rd.lpa ELSE t.p"),
    ("entry zero = same slot", "id   == IF row.id = 0 THEN last + 1 ELSE row.id", "id   == IF row.id = 0 THEN last ELSE row.id"),
    ("elided term = previous SUBJECT", "THEN Go(i + 1, [acc EXCEPT !.terms = (sl :> rd.prev[sl]) @@ @])", "THEN Go(i + 1, [acc EXCEPT !.terms = (sl :> rd.prev[\"s\"]) @@ @])"),
]


def real_traces(n=25):
    c = U.SIM["mix-quads"]
    behs, _ = writer.simulate(c, num=n, hist_len=20, seed=7)
    traces = []
    for i, beh in enumerate(behs[:n]):
        res = writer.replay_stepwise(beh, c, writer.Subst())
        frames = wire.dec_delimited(res["bytes"])
        traces.append({"id": i, "rows": terms.jrows_of_frames(frames), "mode": "seq",
                       "exp": [terms.jitem(terms.norm_item(s)) for s in res["accepted"]], "bytes": res["bytes"]})
    return traces


def judge_with_spec_dir(traces, specdir):
    import json  # noqa: PLC0415

    path = os.path.join(env.workdir(), "selftest-batch.json")
    with open(path, "w") as f:
        json.dump([{k: v for k, v in t.items() if k != "bytes"} | {"prefix": False} for t in traces], f)
    r = tlc.run("TraceReader", tlc.JUDGE_CFG, workers=2, timeout=300, env_extra={"TRACE_FILE": path}, cwd=specdir)
    out = {}
    for p in r.printed("VERDICT"):
        v = json.loads(p)
        out[v["id"]] = v["verdict"]
    return out


def main(tier: str) -> int:
    ok = True
    traces = real_traces()
    base = judge_with_spec_dir(traces, env.SPEC)
    print(f"(0) {sum(v == 'ok' for v in base.values())}/{len(traces)} real traces accepted by the unmodified specification")
    ok &= all(v == "ok" for v in base.values())
    for name, old, new in MUTANTS:
        d = os.path.join(env.workdir(), "mut-spec")
        shutil.rmtree(d, ignore_errors=True)
        shutil.copytree(env.SPEC, d)
        src = open(os.path.join(d, "JellyReader.tla")).read()
        if old not in src:
            print(f"(a) spec mutant '{name}': pattern not found")
            ok = False
            continue
        open(os.path.join(d, "JellyReader.tla"), "w").write(src.replace(old, new, 1))
        v = judge_with_spec_dir(traces, d)
        rejected = sum(x != "ok" for x in v.values())
        print(f"(a) spec mutant '{name}': {rejected}/{len(traces)} real traces rejected")
        ok &= rejected > 0
    # (b) corrupt recorded traces
    for what in ("id+1", "drop-entry", "swap-terms"):
        bad = []
        for t in traces:
            t2 = copy.deepcopy(t)
            rows = t2["rows"]
            if what == "id+1":
                # an EXPLICIT name id moved to the next slot (a zero id made explicit would be a legal re-encoding, not a corruption)
                i = next((k for k, r in enumerate(rows) if r["r"] in ("triple", "quad") and any(isinstance(r.get(s), dict) and r[s].get("t") == "iri" and r[s]["n"] > 0 for s in "spog")), None)
                if i is None:
                    continue
                s = next(s for s in "spog" if isinstance(rows[i].get(s), dict) and rows[i][s].get("t") == "iri" and rows[i][s]["n"] > 0)
                rows[i][s]["n"] = rows[i][s]["n"] + 1
            elif what == "drop-entry":
                i = next((k for k, r in enumerate(rows) if r["r"] == "name"), None)
                if i is None:
                    continue
                del rows[i]
            else:
                i = next((k for k, r in enumerate(rows) if r["r"] in ("triple", "quad") and "s" in r and "o" in r and r["s"] != r["o"]), None)
                if i is None:
                    continue
                rows[i]["s"], rows[i]["o"] = rows[i]["o"], rows[i]["s"]
            bad.append(t2)
        v = judge_with_spec_dir(bad, env.SPEC)
        rejected = sum(x != "ok" for x in v.values())
        print(f"(b) trace corruption '{what}': {rejected}/{len(bad)} corrupted traces rejected")
        ok &= bool(bad) and rejected == len(bad)
    # (c) codec cross-check against google.protobuf, both directions
    from pyjelly import jelly  # noqa: PLC0415
    from google.protobuf.proto import parse_length_prefixed  # noqa: PLC0415
    import io  # noqa: PLC0415

    agree = 0
    for t in traces:
        data = t["bytes"]
        mine = wire.enc_delimited(wire.dec_delimited(data))
        inp = io.BytesIO(data)
        theirs = b""
        while fr := parse_length_prefixed(jelly.RdfStreamFrame, inp):
            body = fr.SerializeToString(deterministic=True)
            theirs += wire.enc_varint(len(body)) + body
        agree += (mine == data == theirs)
    print(f"(c) codec: {agree}/{len(traces)} streams re-encode byte-identically through harness/wire.py and through google.protobuf")
    ok &= agree == len(traces)
    # (d) the inductive step on real edges of the serializer state graph: three corruptions of recorded edges must be refused
    from .. import writergraph as wg  # noqa: PLC0415

    c = dict(U.THOROUGH_SLICES["flow2"], CheckFits=False, AllowReject=True)
    _idle, pools, _r = wg.model_idle_states(c)
    _real, trans = wg.walk(c, pools, body_max=0)
    t = copy.deepcopy(trans[:40])
    a = next(x for x in t if any(r["r"] == "name" for r in x["rows"]))
    next(r for r in a["rows"] if r["r"] == "name")["v"] = "zzz"                  # another string in an entry row
    b = next(x for x in t if x is not a and "N" in x["to"] and x["to"]["N"]["ord"])
    b["to"]["N"]["la"] = 7                                                        # successor state: another last-assigned id
    d = next(x for x in t if x not in (a, b) and x["rows"])
    d["rows"] = d["rows"][:-1]                                                    # the statement row dropped
    j, _st = wg.judge_transitions(c, t)
    got = [j[x["id"]]["ind"] for x in (a, b, d)]
    clean = sum(1 for x in t if j[x["id"]]["ind"] == "ok")
    print(f"(d) inductive step on real edges: {clean}/{len(t)} accepted, the three corrupted ones judged {got}")
    ok &= clean == len(t) - 3 and got[0].startswith("Faithful") and got[1].startswith("Mirror") and got[2] != "ok"
    print("SELFTEST", "ok" if ok else "FAILED")
    return 0 if ok else 2
