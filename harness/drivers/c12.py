"""C12 -- streams are isolated and serialization is deterministic."""
from __future__ import annotations

import io
import itertools
import json
import os
import random
import subprocess
import sys
import threading

from .. import env, impl, report, solo, terms, tlc


def schedules(streams, lengths, shared="none", parsers=None, enumerate_schedules=True):
    """All interleavings of the serializer streams and the parser processes (parsers: name -> name of the workload it reads)."""
    names = sorted(streams)
    parsers = parsers or {}
    def wl(i, n):
        return f'<<{", ".join(f"<<{chr(34)}k{(i * 3 + j) % 4}{chr(34)}, {chr(34)}t{((i + j) // 2) % 3}{chr(34)}>>" for j in range(lengths[n]))}>>'
    allw = names + [w for w in sorted(set(parsers.values())) if w not in names]
    work = ", ".join(f"{n} |-> {wl(i, n)}" for i, n in enumerate(allw))
    q = lambda n: chr(34) + n + chr(34)  # noqa: E731
    src = ", ".join(f"{p} |-> {q(w)}" for p, w in sorted(parsers.items()))
    text = (f"---- MODULE MCIso ----\nEXTENDS PyIsolation\nSS == {{{', '.join(q(n) for n in names)}}}\nWW == [{work}]\n"
            f"PP == {{{', '.join(q(p) for p in sorted(parsers))}}}\nSRC == {('[' + src + ']') if parsers else 'NoFn'}\n====\n")
    cfg = (f'SPECIFICATION Spec\nCONSTANTS Streams <- SS Work <- WW SharedState = "{shared}" FlushEvery = 3 Parsers <- PP Src <- SRC\n'
           'INVARIANT Isolated\nINVARIANT IsolatedRead\n' + ('INVARIANT PrintSchedule\n' if enumerate_schedules else 'VIEW NoSchedView\n') + 'CHECK_DEADLOCK FALSE\n')
    r = tlc.run("MCIso", cfg, module_text=text, workers=1, timeout=600)
    return [json.loads(p) for p in r.printed("SCHEDULE")], r


def push_generator(name, options):
    """Statement-by-statement use of a Stream built from a GIVEN SerializerOptions object (callers commonly reuse one options object)."""
    integ, ptype, stmts, _ = solo.workloads()[name]
    cfg = impl.default_cfg(integ=integ, sclass=("triple" if ptype == 1 else "quad"))
    stream = impl.make_stream(cfg, options)
    stream.enroll()
    for st in stmts:
        tt = [terms.to_generic(t) if integ == "generic" else terms.to_rdflib(t) for t in st] if integ == "rdflib" or not any(t[0] == "qt" for t in st) \
            else [__import__("harness.writer", fromlist=["to_impl_term"]).to_impl_term(t, integ) for t in st]
        fr = stream.triple(tt) if ptype == 1 else stream.quad(tt)
        yield fr                      # None when nothing was cut: the step still counts
    last = stream.flow.to_stream_frame()
    if last is not None:
        yield last


class Pipe:
    """A real pipeline stepped from outside: serializer (frames generator) or parser (items generator)."""

    def __init__(self, name, kind="ser", data=None, integ="generic"):
        self.name, self.kind = name, kind
        self.out = io.BytesIO()
        self.items = []
        if kind == "push":
            self.gen = push_generator(name, data)          # data = the (possibly shared) SerializerOptions object
            self.kind = "ser"
        elif kind == "ser":
            self.gen = solo.frames_generator(name)
        else:
            mod = __import__(f"pyjelly.integrations.{integ}.parse", fromlist=["parse_jelly_flat"])
            self.conv = terms.item_from_generic if integ == "generic" else terms.item_from_rdflib
            self.gen = mod.parse_jelly_flat(io.BytesIO(data))
        self.done = False

    def step(self):
        if self.done:
            return
        try:
            x = next(self.gen)
        except StopIteration:
            self.done = True
            return
        except Exception as ex:  # noqa: BLE001
            self.done = True
            self.error = f"{type(ex).__name__}: {str(ex)[:100]}"
            return
        if self.kind == "ser":
            if x is not None:
                impl.write_delimited(x, self.out)
        else:
            self.items.append(self.conv(x))

    def finish(self):
        while not self.done:
            self.step()

    error = None

    def result(self):
        if self.error:
            return ("raised", self.error)
        return self.out.getvalue() if self.kind == "ser" else self.items


def run_interleaved(specs, sched):
    pipes = {n: Pipe(*a) for n, a in specs.items()}
    for s in sched:
        pipes[s].step()
    for p in pipes.values():
        p.finish()
    return {n: p.result() for n, p in pipes.items()}


def run_threads_baton(specs, sched):
    pipes = {n: Pipe(*a) for n, a in specs.items()}
    cond = threading.Condition()
    state = {"i": 0}
    errors = []

    def worker(name):
        try:
            while True:
                with cond:
                    cond.wait_for(lambda: state["i"] >= len(sched) or sched[state["i"]] == name)
                    if state["i"] >= len(sched):
                        break
                    pipes[name].step()
                    state["i"] += 1
                    cond.notify_all()
            pipes[name].finish()
        except Exception as ex:  # noqa: BLE001
            errors.append(f"{name}: {type(ex).__name__}: {ex}")
            with cond:
                state["i"] = len(sched)
                cond.notify_all()

    ts = [threading.Thread(target=worker, args=(n,)) for n in pipes]
    for t in ts:
        t.start()
    for t in ts:
        t.join(30)
    return {n: p.result() for n, p in pipes.items()}, errors


def run_threads_free(specs, repeat):
    old = sys.getswitchinterval()
    sys.setswitchinterval(1e-6)
    bad = []
    try:
        for _ in range(repeat):
            pipes = {n: Pipe(*a) for n, a in specs.items()}
            start = threading.Barrier(len(pipes))

            def worker(p):
                start.wait()
                p.finish()

            ts = [threading.Thread(target=worker, args=(p,)) for p in pipes.values()]
            for t in ts:
                t.start()
            for t in ts:
                t.join(30)
            bad.append({n: p.result() for n, p in pipes.items()})
    finally:
        sys.setswitchinterval(old)
    return bad


def main(tier: str) -> int:
    run = report.Run("C12", "model_checking", tier)
    seed = env.seed()
    rnd = random.Random(seed)
    # the model: isolation holds; the two shared-state designs are refuted
    s2, r2 = schedules({"A", "B"}, {"A": 4, "B": 4})
    states, trans = r2.distinct, r2.generated
    if r2.violated or len(s2) != 70:
        env.machinery_failure(f"C12: PyIsolation: {r2.violated}, {len(s2)} schedules")
    for shared in ("rep", "table", "flow"):
        _, rb = schedules({"A", "B"}, {"A": 4, "B": 4}, shared)
        if "Isolated" not in rb.violated:
            env.machinery_failure(f"C12: shared {shared} is not refuted by TLC: Isolated is vacuous")
    # serializers and parsers together (invariants only; interleavings merged by a VIEW), and the two shared-state designs of the read side refuted
    mixed = dict(streams={"A", "B"}, lengths={"A": 4, "B": 4, "WP": 6, "WQ": 6}, parsers={"P": "WP", "Q": "WQ"}, enumerate_schedules=False)
    _, rm = schedules(shared="none", **mixed)
    if rm.violated or not rm.ok:
        env.machinery_failure(f"C12: PyIsolation with two parsers: {rm.violated or rm.errors[:2]}")
    states += rm.distinct
    trans += rm.generated
    for shared in ("rtable", "rrep"):
        _, rb = schedules(shared=shared, **mixed)
        if "IsolatedRead" not in rb.violated:
            env.machinery_failure(f"C12: shared {shared} is not refuted by TLC: IsolatedRead is vacuous")
    sp2, rp2 = schedules(set(), {"WP": 4, "WQ": 4}, "none", parsers={"A": "WP", "B": "WQ"})      # every interleaving of two parsers (named A, B for the replay)
    if rp2.violated or len(sp2) != 70:
        env.machinery_failure(f"C12: PyIsolation, two parsers: {rp2.violated}, {len(sp2)} schedules")
    s3 = []
    if tier == "thorough":
        s3, r3 = schedules({"A", "B", "P"}, {"A": 3, "B": 3, "P": 3})
        states += r3.distinct
        trans += r3.generated
    else:
        s3, r3 = schedules({"A", "B", "P"}, {"A": 2, "B": 2, "P": 2})
        states += r3.distinct
        trans += r3.generated
    names = list(solo.workloads())
    base = {n: solo.solo_bytes(n) for n in names}
    parsed = {n: impl.parse(solo.workloads()[n][0], base[n], "flat") for n in names}
    runs = 0
    samples = []

    def check(res, specs, key, rp):
        for n, (wname, kind, *_rest) in specs.items():
            want = base[wname] if kind == "ser" else parsed[wname]
            if res[n] != want:
                run.violation(dict(key, stream=wname, role=kind),
                              f"{'bytes' if kind == 'ser' else 'items'} of workload {wname} differ from its solo run when interleaved with {[s[0] for m, s in specs.items() if m != n]}", rp)

    pairs = list(itertools.permutations(names, 2))
    if tier == "quick":
        pairs = rnd.sample(pairs, 6)
    for a, b in pairs:
        specs = {"A": (a, "ser"), "B": (b, "ser")}
        for sched in s2:
            runs += 1
            check(run_interleaved(specs, sched), specs, {"mode": "generator-interleaving"}, {"pair": [a, b], "schedule": sched})
        for sched in (s2 if tier == "thorough" else rnd.sample(s2, 12)):
            runs += 1
            res, errs = run_threads_baton(specs, sched)
            for e in errs:
                run.violation({"mode": "threads-baton", "clause": "raised"}, e, {"pair": [a, b], "schedule": sched})
            check(res, specs, {"mode": "threads-baton"}, {"pair": [a, b], "schedule": sched})
        if len(samples) < 2:
            samples.append({"pair": [a, b], "schedules": len(s2), "example": s2[len(s2) // 2]})
    # one SerializerOptions object shared by two streams that are driven statement by statement (rows stay buffered between steps)
    for a, b in (("A", "D"), ("D", "A"), ("B", "C"), ("C", "B")):
        ptype = solo.workloads()[a][1]
        for fs in (250, 3):
            def opts(ptype=ptype, fs=fs):
                return impl.make_options(impl.default_cfg(integ="generic", sclass=("triple" if ptype == 1 else "quad"), ltype=(1 if ptype == 1 else 2),
                                                          frame_size=fs, preset=(8, 3, 2), gen=True, star=True))
            solo_push = {}
            for n in (a, b):
                p = Pipe(n, "push", opts())
                p.finish()
                solo_push[n] = p.result()
            for sched in (s2 if tier == "thorough" else rnd.sample(s2, 25)):
                shared = opts()
                pipes = {"A": Pipe(a, "push", shared), "B": Pipe(b, "push", shared)}
                for s_ in sched:
                    pipes[s_].step()
                for p in pipes.values():
                    p.finish()
                runs += 1
                for role, n in (("A", a), ("B", b)):
                    if pipes[role].result() != solo_push[n]:
                        run.violation({"mode": "shared-options-object", "stream": n, "frame_size": fs},
                                      f"bytes of workload {n} differ from its solo run when a second stream built from the SAME SerializerOptions object is written interleaved",
                                      {"pair": [a, b], "schedule": sched, "frame_size": fs})
            # prior history with the same options object: an earlier stream abandoned with rows still buffered
            shared = opts()
            dead = Pipe(b, "push", shared)
            dead.step()
            dead.step()
            p = Pipe(a, "push", shared)
            p.finish()
            runs += 1
            if p.result() != solo_push[a]:
                run.violation({"mode": "prior-history-shared-options", "stream": a, "frame_size": fs},
                              f"bytes of workload {a} depend on an earlier, abandoned stream built from the same SerializerOptions object", {"pair": [a, b], "frame_size": fs})
    # three-way with a parser in the middle
    for a, b, p in (itertools.permutations(names, 3) if tier == "thorough" else [tuple(rnd.sample(names, 3)) for _ in range(3)]):
        specs = {"A": (a, "ser"), "B": (b, "ser"), "P": (p, "par", base[p], solo.workloads()[p][0])}
        for sched in (s3 if tier == "thorough" else rnd.sample(s3, min(len(s3), 40))):
            runs += 1
            check(run_interleaved(specs, sched), specs, {"mode": "generator-interleaving-with-parser"}, {"triple": [a, b, p], "schedule": sched})
    # two (and three) PARSERS stepped alternately, over different streams and over the same bytes (equal table sizes, equal options rows)
    for a, b in ([(x, y) for x in names for y in names] if tier == "thorough" else [tuple(rnd.choice(names) for _ in range(2)) for _ in range(5)] + [(names[0], names[0])]):
        specs = {"A": (a, "par", base[a], solo.workloads()[a][0]), "B": (b, "par", base[b], solo.workloads()[b][0])}
        for sched in (sp2 if tier == "thorough" else rnd.sample(sp2, 20)):
            runs += 1
            check(run_interleaved(specs, sched), specs, {"mode": "two-parsers-interleaved"}, {"pair": [a, b], "schedule": sched})
        runs += 1
        res, errs = run_threads_baton(specs, s2[len(s2) // 2])
        for e in errs:
            run.violation({"mode": "two-parsers-threads-baton", "clause": "raised"}, e, {"pair": [a, b]})
        check(res, specs, {"mode": "two-parsers-threads-baton"}, {"pair": [a, b]})
    # free-running threads: the long TRIPLES workloads against each other (and against themselves), many times -- module-level scratch objects in the
    # serializer show only under true concurrency
    for a, b in (("E", "E"), ("E", "A"), ("E", "D"), ("F", "F")):
        specs = {"A": (a, "ser"), "B": (b, "ser"), "C": (a, "ser")}
        for res in run_threads_free(specs, 40 if tier == "quick" else 400):
            runs += 1
            check(res, specs, {"mode": "threads-free-running"}, {"pair": [a, b]})
    for a, b in pairs[:3]:
        specs = {"A": (a, "ser"), "B": (b, "ser"), "P": (a, "par", base[a], solo.workloads()[a][0])}
        for res in run_threads_free(specs, 30 if tier == "quick" else 300):
            runs += 1
            check(res, specs, {"mode": "threads-free-running"}, {"pair": [a, b]})
    # prior history in the process: streams created, used and abandoned (one of them failed)
    for n in names:
        for k in (1, 5):
            junk = []
            for j in range(k):
                g = solo.frames_generator(names[(names.index(n) + j + 1) % len(names)])
                next(g, None)
                junk.append(g)                      # abandoned mid-way
            try:
                integ, ptype, stmts, _ = solo.workloads()[n]
                st = impl.make_stream(impl.default_cfg(integ=integ, sclass=("triple" if ptype == 1 else "quad"), ltype=(1 if ptype == 1 else 2), preset=(8, 3, 2)))
                st.enroll()
                (st.triple if ptype == 1 else st.quad)([object(), object(), object(), object()])
            except Exception:  # noqa: BLE001
                pass
            runs += 1
            got = solo.solo_bytes(n)
            if got != base[n]:
                run.violation({"mode": "prior-history", "stream": n}, f"bytes of {n} depend on {k} streams created and abandoned earlier", {"workload": n, "prior": k})
    # prior history on the namespace side: other sinks bind prefixes, other streams with declarations are parsed
    before = solo.digests()
    gs = terms.generic_classes()
    for k in range(3):
        other = gs.GenericStatementSink()
        other.bind(f"foaf{k}", gs.IRI(f"http://xmlns.com/foaf/{k}/"))
        other.bind("", gs.IRI("http://default.example/"))
    impl.parse("generic", solo.namespace_bytes(), "to_graph")
    fresh_sink = gs.GenericStatementSink()
    runs += 1
    if list(fresh_sink.namespaces):
        run.violation({"mode": "prior-history", "clause": "new-sink-not-empty"}, f"a newly created GenericStatementSink already carries namespaces {list(fresh_sink.namespaces)[:3]}", {})
    no_ns = impl.parse("generic", solo.solo_bytes("A"), "to_graph")
    runs += 1
    if any(it[0] == "ns" for it in no_ns):
        run.violation({"mode": "prior-history", "clause": "parser-output-carries-foreign-namespaces"},
                      "parsing a stream WITHOUT namespace declarations returned a sink with namespaces bound by other sinks/parsers", {})
    after = solo.digests()
    for k in before:
        if before[k] != after[k]:
            run.violation({"mode": "prior-history", "workload": k}, f"bytes of workload {k} changed after unrelated sinks bound prefixes and unrelated streams were parsed", {"workload": k})
    # hash seeds / processes
    want = before
    seeds = ["0", "1", "4242", "random"] if tier == "quick" else ["0", "1", "2", "3", "7", "99", "4242", "31337", "random", "random", "random", "random"]
    for hs in seeds:
        e = dict(os.environ, PYTHONHASHSEED=hs)
        p = subprocess.run([sys.executable, "-m", "harness.solo"], cwd=env.VERIF, env=e, capture_output=True, text=True, timeout=120)
        runs += 1
        try:
            got = json.loads(p.stdout)
        except json.JSONDecodeError:
            env.machinery_failure(f"C12: solo subprocess failed: {p.stderr[-400:]}")
        for k in want:
            if got.get(k) != want[k]:
                run.violation({"mode": "hash-seed", "workload": k}, f"bytes of workload {k} differ in a process with PYTHONHASHSEED={hs}", {"seed": hs, "workload": k})
    # each workload ALONE in a fresh process (no other stream has ever existed there) vs. this process, where everything above has happened
    here = solo.digests()
    for k in list(solo.workloads()) + ["namespaces"]:
        p = subprocess.run([sys.executable, "-m", "harness.solo", k], cwd=env.VERIF, env=dict(os.environ), capture_output=True, text=True, timeout=120)
        runs += 1
        try:
            alone = json.loads(p.stdout)[k]
        except (json.JSONDecodeError, KeyError):
            env.machinery_failure(f"C12: solo subprocess for {k} failed: {p.stderr[-300:]}")
        if alone != here[k]:
            run.violation({"mode": "process-history", "workload": k},
                          f"bytes of workload {k} in this process (after other streams were written and parsed) differ from the same workload alone in a fresh process", {"workload": k})
    return run.finish({
        "states": states, "transitions": trans, "traces_validated_against_impl": runs, "samples": samples, "exhaustive": False,
        "two_way_schedules": len(s2), "three_way_schedules": len(s3), "runs": runs,
        "nonvacuity": "TLC refutes Isolated for SharedState = rep and SharedState = table",
        "explanation": "spec/PyIsolation.tla: serializer streams AND parser processes; TLC checks Isolated / IsolatedRead over all interleavings, refutes five shared-state designs (rep, table, flow, rtable, rrep) and enumerates them (70 for 4+4 steps; three-way with a parser); every schedule is imposed on real "
                       "generator pipelines (flat_stream_to_frames of both integrations, parse_jelly_flat), then on real threads handing over a baton in that order, then free-running threads "
                       "with a 1 microsecond switch interval; bytes/items are compared with the solo run; prior process history and fresh processes under several PYTHONHASHSEED values likewise",
    })
