"""C06 -- no accepted serializer configuration silently drops statements."""
from __future__ import annotations

import io
import json

from .. import env, impl, report, terms, tlc, wire
from ..writer import cfg_text

I = lambda s: ("iri", s)  # noqa: E731
G1, G2 = I("http://g/1"), ("dg",)


def sink_statements(k: int, quads: bool):
    """Two statements per sink, plus what an ordered input may legitimately contain: the last statement TWICE in a row (sink 0), and a second
    sink that starts with the s/p/o the first one ended with (in another graph) -- statements all of whose terms repeat the previous row."""
    def two(j):
        return [(I(f"http://e/s{j}"), I("http://e/p"), I(f"http://e/o{j}")), (I(f"http://e/s{j}"), I("http://e/p"), ("lit", f"v{j}", "", ""))]

    base = two(k) + two(k)[1:] if k == 0 else two(0)[1:] + two(k)
    if not quads:
        return base
    return [st + ((G1 if k == 0 else G2),) for st in base]


def check_dispatch(run, r):
    """Spec growth beyond the listed properties: the API's dispatch tables as PyConfig states them vs. the real functions (drift only)."""
    payload = r.printed("DISPATCH")
    if not payload:
        return 0
    d = json.loads(payload[0])
    from pyjelly.integrations.generic import serialize as gs  # noqa: PLC0415
    from pyjelly.integrations.rdflib import serialize as rs  # noqa: PLC0415
    from pyjelly.serialize import flows, streams  # noqa: PLC0415
    from rdflib.graph import Dataset, Graph  # noqa: PLC0415

    names = {streams.TripleStream: "triple", streams.QuadStream: "quad", streams.GraphStream: "graph"}
    fl = {flows.FlatTriplesFrameFlow: "flat_triples", flows.FlatQuadsFrameFlow: "flat_quads", flows.GraphsFrameFlow: "graphs", flows.DatasetsFrameFlow: "datasets"}
    n = 0

    def expect(what, want, fn):
        nonlocal n
        n += 1
        try:
            got = fn()
        except NotImplementedError:
            got = "NotImplementedError"
        except Exception as ex:  # noqa: BLE001
            got = type(ex).__name__
        if got != want:
            run.model_drift(f"dispatch {what}: PyConfig says {want}, the code {got}")

    for q in (False, True):
        key = "quads" if q else "triples"
        gsink = impl.generic_sink(sink_statements(0, q))
        rsink = impl.rdflib_container(sink_statements(0, q), dataset=q)
        expect(f"generic.guess_options({key})", d["guess_options"][key], lambda: gs.guess_options(gsink).logical_type)
        expect(f"rdflib.guess_options({key})", d["guess_options"][key], lambda: rs.guess_options(rsink).logical_type)
        for e in d["guess_stream"]:
            opts = impl.make_options(impl.default_cfg(ltype=e["lt"], gen=False, star=False))
            expect(f"generic.guess_stream(lt={e['lt']}, {key})", e[key], lambda: names[type(gs.guess_stream(opts, gsink))])
            expect(f"rdflib.guess_stream(lt={e['lt']}, {key})", e[key], lambda: names[type(rs.guess_stream(opts, rsink))])
    for e in d["stream_for_type"]:
        expect(f"stream_for_type({e['pt']})", e["cls"], lambda: names[streams.stream_for_type(e["pt"])])
    for e in d["flow_for_type"]:
        expect(f"flow_for_type({e['lt']})", e["flow"], lambda: fl[flows.flow_for_type(e["lt"])])
    return n


def model_outcomes(guard: str):
    r = tlc.run("PyConfig", cfg_text({"FlushGuard": f'"{guard}"'}, ("NoSilentDrop", "RefusesForbidden", "OneFramePerGraph", "PrintOutcome", "PrintDispatch")).replace(" <- ", " = "),
                workers=1, timeout=600)
    return r


NSS = [("ex", "http://e/"), ("", "http://other.example/ns#"), ("g", "http://g/")]


def real_explicit(integ, o, stmts_per_sink, nsdecl=False):
    """Explicit Stream class, frames pulled from stream_frames once per sink (what grouped_stream_to_frames does)."""
    c = o["cfg"]
    cfg = impl.default_cfg(integ=integ, entry="stream_frames", sclass=c["sclass"], ltype=c["lt"], delimited=c["delimited"],
                           frame_size=c["fs"], flow=(None if c["flow"] == "inferred" else c["flow"]), preset=(8, 4, 2),
                           gen=(integ == "generic"), star=(integ == "generic"), nsdecl=nsdecl)
    stream = impl.make_stream(cfg)
    # Tier 2: the flow the Stream ended up with is the one PyConfig.Construct predicts (class, logical type, frame size)
    kinds = {"ManualFrameFlow": "manual", "BoundedFrameFlow": "bounded", "FlatTriplesFrameFlow": "flat_triples", "FlatQuadsFrameFlow": "flat_quads",
             "GraphsFrameFlow": "graphs", "DatasetsFrameFlow": "datasets"}
    real = (kinds.get(type(stream.flow).__name__), int(stream.flow.logical_type), getattr(stream.flow, "frame_size", None))
    want = (o["kind"], o["lt"], o["fsz"] if o["kind"] in ("bounded", "flat_triples", "flat_quads") else None)
    if real != want:
        FLOW_DRIFT.append(f"{c}: PyConfig predicts flow {want}, the Stream has {real}")
    mod = __import__(f"pyjelly.integrations.{integ}.serialize", fromlist=["stream_frames"])
    out = io.BytesIO()
    n = 0
    for stmts in stmts_per_sink:
        nss = NSS if nsdecl else ()
        data = impl.generic_sink(stmts, nss) if integ == "generic" else impl.rdflib_container(stmts, nss, dataset=(c["sclass"] != "triple"))
        for fr in mod.stream_frames(stream, data):
            (impl.write_delimited if c["delimited"] else impl.write_single)(fr, out)
            n += 1
    return out.getvalue(), c["delimited"], len(stream.flow), n


FLOW_DRIFT: list = []


def guessed_class(lt: int, quads: bool) -> str:
    return "quad" if (lt % 10 != 3 and quads) else "triple"


def main(tier: str) -> int:
    run = report.Run("C06", "model_checking", tier)
    r_old = model_outcomes("flat-only")
    if "NoSilentDrop" not in r_old.violated:
        env.machinery_failure("C06: with the final flush restricted to flat types the model shows no violation: invariant vacuous")
    r = model_outcomes("always")
    if r.violated or not r.ok:
        env.machinery_failure(f"C06: PyConfig (FlushGuard=always) {r.violated or r.errors[:2]}")
    dispatch_points = check_dispatch(run, r)
    outcomes = [json.loads(p) for p in r.printed("OUTCOME")]
    if len(outcomes) != 2016 + 336:
        env.machinery_failure(f"C06: expected 2352 lattice points from TLC, got {len(outcomes)}")
    by_key = {}
    by_key2 = {}        # an rdflib Dataset with two graphs handed to a TripleStream (ngraphs = 2)
    for o in outcomes:
        c = o["cfg"]
        if c["ngraphs"] == 2:
            by_key2[(c["lt"], c["delimited"], c["fs"], c["flow"])] = o
        else:
            by_key[(c["sclass"], c["lt"], c["delimited"], c["fs"], c["flow"], c["nsinks"])] = o
    outcomes = [o for o in outcomes if o["cfg"]["ngraphs"] == 1]
    cases, traces = [], []

    def add(key, rp, model_raises, fn, items, mode):
        try:
            data, delimited, left, nframes = fn()
            exc = None
        except Exception as ex:  # noqa: BLE001
            data, delimited, left, nframes, exc = None, True, None, 0, f"{type(ex).__name__}: {str(ex)[:100]}"
        case = {"key": key, "rp": rp, "exc": exc, "left": left, "data": data, "model_raises": model_raises, "items": items, "nframes": nframes}
        cases.append(case)
        if data:
            try:
                frames = wire.dec_stream(data, delimited=delimited)
            except wire.WireError as ex:
                case["undecodable"] = str(ex)
                return
            rows_ = terms.jrows_of_frames(frames)
            if mode == "stmts":                   # ignore namespace rows for the expectation, keep them for validity
                n_ns = sum(1 for r_ in rows_ if r_["r"] == "ns")
                case["ns_rows"] = n_ns
                traces.append({"id": len(cases) - 1, "rows": [r_ for r_ in rows_], "mode": "none", "exp": []})
                case["expect_statements"] = len(items)
            else:
                traces.append({"id": len(cases) - 1, "rows": rows_, "mode": mode, "exp": [terms.jitem(terms.norm_item(s)) for s in items]})

    for o in outcomes:
        c = o["cfg"]
        quads = c["sclass"] != "triple"
        per_sink = [sink_statements(k, quads) for k in range(c["nsinks"])]
        items_all = [s for ss in per_sink for s in ss]
        for integ in ("generic", "rdflib"):
            if tier == "quick" and integ == "rdflib" and c["fs"] == 2:
                continue
            # an rdflib Graph / Dataset is a set: duplicates inside one sink do not exist there
            items = items_all if integ == "generic" else [s for ss in per_sink for s in dict.fromkeys(ss)]
            key = {"integ": integ, "entry": "stream_frames", "sclass": c["sclass"], "ltype": impl.LT_NAMES[c["lt"]], "delimited": c["delimited"],
                   "flow": c["flow"], "frame_size": c["fs"], "sinks": c["nsinks"]}
            add(key, {"cfg": c, "statements": per_sink}, bool(o["raised"]),
                lambda integ=integ, o=o, per_sink=per_sink: real_explicit(integ, o, per_sink), items, "seq" if integ == "generic" else "set")
            if c["nsinks"] == 1 and (tier == "thorough" or c["fs"] != 250):
                # the same point with namespace declarations enabled and three bindings on the sink (validity + statements judged; the
                # declarations themselves are C14's subject, so the expectation is the statement SET)
                add(dict(key, nsdecl=True), {"cfg": c, "statements": per_sink, "namespaces": NSS}, bool(o["raised"]),
                    lambda integ=integ, o=o, per_sink=per_sink: real_explicit(integ, o, per_sink, nsdecl=True), items, "stmts")
    # entry points that choose the Stream class themselves
    for lt in (0, 1, 2, 3, 4, 13, 14, 114):
        for delimited in (True, False):
            for flow in ("inferred", "manual", "bounded", "flat_triples", "flat_quads", "graphs", "datasets"):
                for fs in ((1, 250) if tier == "quick" else (1, 2, 250)):
                    for quads in (False, True):
                        sc = guessed_class(lt, quads)
                        if (sc == "triple") != (not quads):
                            continue          # quads handed to a TripleStream lose their graph by design of GRAPHS logical types
                        for integ, entry in (("generic", "flat_to_file"), ("generic", "grouped_to_file"), ("rdflib", "flat_to_file"),
                                             ("rdflib", "grouped_to_file"), ("rdflib", "graph_serialize")):
                            nsinks = 2 if entry == "grouped_to_file" else 1
                            o = by_key[(sc, lt, delimited, fs if fs in (1, 2, 250) else 250, flow, nsinks)]
                            per_sink = [sink_statements(k, quads) for k in range(nsinks)]
                            items = [s for ss in per_sink for s in ss]
                            cfg = impl.default_cfg(integ=integ, entry=entry, sclass=sc, ltype=lt, delimited=delimited, frame_size=fs,
                                                   flow=(None if flow == "inferred" else flow), preset=(8, 4, 2), gen=(integ == "generic"),
                                                   star=(integ == "generic"), groups=per_sink, dataset=quads, explicit_stream=False)
                            key = {"integ": integ, "entry": entry, "sclass": sc + "(guessed)", "ltype": impl.LT_NAMES[lt], "delimited": delimited,
                                   "flow": flow, "frame_size": fs, "sinks": nsinks}

                            def fn(cfg=cfg, items=items, entry=entry, delimited=delimited):
                                data = impl.serialize(cfg, items)
                                # *_to_file always write length-prefixed frames; Graph.serialize honours the delimited flag
                                return data, (delimited if entry == "graph_serialize" else True), None, None

                            add(key, {"cfg": {k: v for k, v in cfg.items() if k != "groups"}, "statements": per_sink}, bool(o["raised"]), fn, items,
                                "seq" if integ == "generic" else "set")
    # an rdflib Dataset (default graph AND named graphs) handed to a TripleStream: the graph names go by design, every triple must be written
    for lt in (3, 13, 1):
        for delimited in (True, False):
            if lt == 1 and False:
                continue
            quads = [(I(f"http://e/s{k}"), I("http://e/p"), I(f"http://e/o{k}"), g_) for k, g_ in enumerate([G1, G1, G2, G2, I("http://g/3")])]
            triples = [q[:3] for q in quads]
            cfg = impl.default_cfg(integ="rdflib", entry="stream_frames", sclass="triple", ltype=lt, delimited=delimited, frame_size=2, preset=(8, 4, 2),
                                   gen=False, star=False, as_sink=True, dataset=True)
            key = {"integ": "rdflib", "entry": "stream_frames", "sclass": "triple", "ltype": impl.LT_NAMES[lt], "delimited": delimited, "flow": "inferred",
                   "frame_size": 2, "sinks": 1, "input": "Dataset"}

            def fn_ds(cfg=cfg, quads=quads, delimited=delimited):
                return impl.serialize(cfg, quads), delimited, None, None

            add(key, {"cfg": cfg, "statements": quads}, False, fn_ds, triples, "set")
            # the frames PyConfig predicts for two graphs of two statements each (ngraphs = 2), on a Dataset shaped like that
            o2 = by_key2[(lt, delimited, 2, "inferred")]
            q2 = [(I(f"http://e/s{k}"), I("http://e/p"), I(f"http://e/o{k}"), g_) for k, g_ in enumerate([G1, G1, I("http://g/3"), I("http://g/3")])]
            try:
                d2 = impl.serialize(cfg, q2)
                nfr = len([f_ for f_ in wire.dec_stream(d2, delimited=delimited)]) if delimited else 1
                if delimited and not o2["raised"] and nfr != o2["frames"]:
                    FLOW_DRIFT.append(f"Dataset of two graphs through TripleStream, lt {lt}: PyConfig predicts {o2['frames']} frames, the code wrote {nfr}")
            except Exception:  # noqa: BLE001
                pass
    # grouped serialization from a generator that REUSES one working sink (filled, yielded, cleared, filled again -- a windowing loop): every window must be written
    for integ in ("generic", "rdflib"):
        for quads in (False, True):
            windows = [[(I(f"http://e/w{w}-s{k}"), I("http://e/p"), I(f"http://e/o{k}")) + ((G1,) if quads else ()) for k in range(2 + w)] for w in range(3)]
            mod = __import__(f"pyjelly.integrations.{integ}.serialize", fromlist=["grouped_stream_to_file"])

            def reuse(integ=integ, quads=quads, windows=windows):
                if integ == "generic":
                    for w_ in windows:
                        yield impl.generic_sink(w_)          # (the generic sink has no clear(): a fresh object per window, handed over lazily all the same)
                else:
                    from rdflib.graph import Dataset, Graph  # noqa: PLC0415

                    work = Dataset() if quads else Graph()
                    for w_ in windows:
                        for ctx in (list(work.graphs()) if quads else [work]):
                            ctx.remove((None, None, None))
                        for st_ in w_:
                            tt = [terms.to_rdflib(t_) for t_ in st_]
                            (work.get_context(tt[3]) if quads else work).add(tuple(tt[:3]))
                        yield work

            key = {"integ": integ, "entry": "grouped_to_file", "sclass": "quad" if quads else "triple", "ltype": "DATASETS" if quads else "GRAPHS", "delimited": True,
                   "flow": "inferred", "frame_size": 250, "sinks": 3, "input": "one working sink reused per window"}
            cfg = impl.default_cfg(integ=integ, sclass=("quad" if quads else "triple"), ltype=(4 if quads else 3), preset=(64, 8, 2), gen=False, star=False)
            out_ = io.BytesIO()
            try:
                mod.grouped_stream_to_file(reuse(), out_, options=impl.make_options(cfg))
                rows_ = wire.rows_of(wire.dec_delimited(out_.getvalue()))
                n_st = sum(1 for r_ in rows_ if r_["r"] in ("triple", "quad"))
            except Exception as ex:  # noqa: BLE001
                run.violation({"clause": "serializer-raised", **key}, f"{type(ex).__name__}: {str(ex)[:100]}", {"windows": windows})
                continue
            if n_st != sum(len(w_) for w_ in windows):
                run.violation({"clause": "statements-missing", "tier1": "windows", **key},
                              f"three windows of {[len(w_) for w_ in windows]} statements yielded one after the other from a reused sink: {n_st} statements written", {"windows": windows})
    # an unbuffered output that takes only part of what it is offered (a raw socket file, a pipe): the call must raise or everything must arrive
    import io as _io  # noqa: PLC0415

    class ShortWrites(_io.RawIOBase):
        def __init__(self, limit):
            self.limit, self.buf = limit, bytearray()

        def writable(self):
            return True

        def write(self, b):
            n = min(len(b), self.limit)
            self.buf += bytes(b[:n])
            return n

    long_lit = ("lit", "L" * 700, "", "")
    for integ in ("generic", "rdflib"):
        for quads in (False, True):
            for limit in (64, 512):
                stmts = [(I(f"http://e/s{k}"), I("http://e/p"), (long_lit if k % 2 else I(f"http://e/o{k}"))) + ((G1,) if quads else ()) for k in range(6)]
                mod = __import__(f"pyjelly.integrations.{integ}.serialize", fromlist=["flat_stream_to_file"])
                sink_ = ShortWrites(limit)
                gen_ = ((terms.stmt_to_generic(s_) if integ == "generic" else impl.rdflib_statement(s_)) for s_ in stmts)
                key = {"integ": integ, "entry": "flat_to_file", "sclass": "quad" if quads else "triple", "ltype": "guessed", "delimited": True, "flow": "inferred",
                       "frame_size": 250, "sinks": 1, "output": f"raw, at most {limit} bytes per write"}
                try:
                    mod.flat_stream_to_file(gen_, sink_)
                except Exception:  # noqa: BLE001      (refusing a sink that cannot take the frame is honest)
                    refused_short = True
                    continue
                try:
                    rows_ = wire.rows_of(wire.dec_delimited(bytes(sink_.buf)))
                    n_st = sum(1 for r_ in rows_ if r_["r"] in ("triple", "quad"))
                except wire.WireError as ex:
                    n_st = -1
                if n_st != len(stmts):
                    run.violation({"clause": "statements-missing", "tier1": "short-write", **key},
                                  f"flat_stream_to_file returned normally but the output that takes at most {limit} bytes per write holds {len(sink_.buf)} bytes "
                                  f"({'undecodable' if n_st < 0 else str(n_st) + ' of ' + str(len(stmts)) + ' statements'})", {"limit": limit, "integ": integ})
    # generic sink.serialize (options guessed)
    for quads in (False, True):
        items = sink_statements(0, quads)
        add({"integ": "generic", "entry": "sink_serialize", "sclass": "guessed", "ltype": "guessed", "delimited": True, "flow": "inferred",
             "frame_size": 250, "sinks": 1}, {"statements": items}, False,
            lambda items=items: (impl.serialize(impl.default_cfg(entry="sink_serialize"), items), True, None, None), items, "seq")

    for d_ in FLOW_DRIFT[:3]:
        run.model_drift(d_)
    if len(FLOW_DRIFT) > 3:
        run.model_drift(f"... {len(FLOW_DRIFT) - 3} further flow predictions differ")
    verdicts = tlc.judge(traces)
    jst = verdicts.pop("__stats__")
    by_case = {t["id"]: verdicts[t["id"]] for t in traces}
    samples = []
    accepted = refused = 0
    for i, case in enumerate(cases):
        key, rp = case["key"], case["rp"]
        if case["exc"] is not None:
            refused += 1
            if not case["model_raises"]:
                run.model_drift(f"{key}: PyConfig accepts, the code raises {case['exc']}")
            continue
        accepted += 1
        if case["model_raises"]:
            run.model_drift(f"{key}: PyConfig refuses, the code accepts")
        if case.get("undecodable"):
            run.violation({"clause": "output-undecodable", **key}, case["undecodable"], rp)
            continue
        if not case["data"]:
            run.violation({"clause": "nothing-written", **key},
                          f"accepted without raising but wrote 0 bytes for {len(case['items'])} statements"
                          + (f" ({case['left']} rows left in stream.flow)" if case["left"] else ""), rp)
            continue
        v = by_case[i]
        if v["verdict"] == "ok" and "expect_statements" in case and v["n"] - case.get("ns_rows", 0) != case["expect_statements"]:
            v = dict(v, verdict=f"D-{v['n'] - case.get('ns_rows', 0)}-statements-of-{case['expect_statements']}")
        if v["verdict"] != "ok":
            run.violation({"clause": "statements-missing", "tier1": v["verdict"], **key},
                          f"accepted without raising but the bytes written do not hold the input: {v['verdict']}"
                          + (f" ({case['left']} rows left in stream.flow)" if case["left"] else ""), rp)
        elif case["left"]:
            run.violation({"clause": "rows-left-in-buffer", **key}, f"{case['left']} rows left in stream.flow when the call returned", rp)
        if len(samples) < 3 and i % 97 == 0:
            samples.append({"key": key, "frames": case["nframes"], "bytes": len(case["data"])})
    return run.finish({
        "states": r.distinct, "transitions": r.generated, "traces_validated_against_impl": len(traces), "samples": samples, "exhaustive": True,
        "lattice_points_model": len(outcomes), "dispatch_table_points_compared": dispatch_points, "configurations_run": len(cases), "accepted": accepted, "refused": refused,
        "nonvacuity": "TLC finds NoSilentDrop violated when the model's final flush is restricted to flat logical types",
        "explanation": "TLC enumerates the whole lattice stream class x 8 logical types x delimited x frame_size{1,2,250} x flow{inferred + 6 classes} x {1,2} sinks "
                       "on spec/PyConfig.tla (invariant NoSilentDrop); every point is replayed on the real classes through stream_frames (both integrations) and, with the "
                       "class guessed, through flat_/grouped_stream_to_file, Graph.serialize and sink.serialize; accepted => bytes judged by TLC (denotation = input) and the flow must be empty",
    })
