"""C07 -- frame boundaries never change content; grouped I/O is one sink per frame."""
from __future__ import annotations

import contextvars
import io
import json
import random
from concurrent.futures import ThreadPoolExecutor

from .. import env, impl, producer, report, terms, tlc, universes as U, wire, writer
from ..writer import cfg_text
from .c04 import rdf_norm, split_ns


def partitions(n: int, max_empty: int):
    r = tlc.run("Framing", cfg_text({"N": n, "MaxEmpty": max_empty}, ("Consumed", "Complete", "PrintPartition")), workers=1, timeout=300)
    if r.violated or not r.ok:
        env.machinery_failure(f"Framing N={n}: {r.violated or r.errors[:2]}")
    parts = sorted({tuple(json.loads(p)) for p in r.printed("PARTITION")})
    return parts, r


BIG = (1 << 20) + 123       # a frame beyond the parser's 1 MiB read chunk, and not a multiple of it


def reframe(rows, part, meta_every=2, big_at=None):
    frames, pos = [], 0
    for i, ln in enumerate(part):
        fr = {"rows": rows[pos:pos + ln]}
        pos += ln
        if i == big_at:
            fr["meta"] = {"big": b"\xab" * BIG}
        if i % meta_every == 1 or (ln == 0 and i % 3 == 0):
            fr["meta"] = {"k": f"v{i}".encode(), "n": bytes([i % 256]), "raw": b"\xff\xfe\x00" + bytes([i % 256])}
        frames.append(fr)
    assert pos == len(rows)
    return frames


def grouped_with_metadata(integ, data):
    """[(items of sink, metadata visible when the sink is handed over, metadata visible when the sink's FACTORY was called)]
    -- "during whose consumption that frame's metadata is visible" starts when the sink for the frame is made."""
    var = contextvars.ContextVar("frame_metadata")
    seen_by_factory = []

    def note():
        try:
            seen_by_factory.append(dict(var.get()))
        except LookupError:
            seen_by_factory.append(None)

    if integ == "generic":
        from pyjelly.integrations.generic import parse as mod  # noqa: PLC0415

        def sink_factory():
            note()
            return terms.generic_classes().GenericStatementSink()

        out = []
        for sink in mod.parse_jelly_grouped(io.BytesIO(data), frame_metadata=var, sink_factory=sink_factory):
            items = [("ns", p, i._iri) for p, i in sink.namespaces] + [terms.item_from_generic(x) for x in sink]
            out.append((items, dict(var.get()), seen_by_factory[-1] if seen_by_factory else None))
        return out
    from pyjelly.integrations.rdflib import parse as mod  # noqa: PLC0415
    from rdflib.graph import Dataset, Graph  # noqa: PLC0415

    def graph_factory():
        note()
        return Graph()

    def dataset_factory():
        note()
        return Dataset()

    out = []
    for g in mod.parse_jelly_grouped(io.BytesIO(data), frame_metadata=var, graph_factory=graph_factory, dataset_factory=dataset_factory):
        out.append((impl._items_of_rdflib_store(g), dict(var.get()), seen_by_factory[-1] if seen_by_factory else None))
    return out


def _safe(fn, *a, **kw):
    try:
        return fn(*a, **kw)
    except Exception as ex:  # noqa: BLE001
        return f"EXC:{type(ex).__name__}:{str(ex)[:160]}"


def check_partition(run, key, rp, rows, den, part, integ, big_at=None):
    frames = reframe(rows, part, big_at=big_at)
    data = wire.enc_delimited(frames)
    rp = dict(rp, partition=list(part), hex=(data.hex() if big_at is None else f"(frame {big_at} carries {BIG} bytes of metadata under the key 'big')"))
    norm = rdf_norm if integ == "rdflib" else terms.norm_item
    want = [norm(x) for x in den]
    flat = _safe(impl.parse, integ, data, "flat")
    if isinstance(flat, str):
        run.violation({"clause": "flat-raised", **key}, f"partition {list(part)}: {flat}", rp)
        return 1
    if [norm(x) for x in flat] != want:
        run.violation({"clause": "flat-depends-on-framing", **key}, f"flat parse differs for partition {list(part)}", rp)
    grouped = _safe(grouped_with_metadata, integ, data)
    if isinstance(grouped, str):
        run.violation({"clause": "grouped-raised", **key}, f"partition {list(part)}: {grouped}", rp)
        return 2
    if len(grouped) != len(frames):
        run.violation({"clause": "sinks-vs-frames", **key}, f"{len(frames)} frames but {len(grouped)} sinks for partition {list(part)}", rp)
        return 2
    counts = producer.denoting_per_frame(frames)
    pos = 0
    for fi, (items, meta, meta_f) in enumerate(grouped):
        w = den[pos:pos + counts[fi]]
        pos += counts[fi]
        if integ == "generic":
            ok = split_ns(items) == split_ns(w)
        else:
            ok = {norm(x) for x in items} == {norm(x) for x in w if x[0] != "ns"}
        if not ok:
            run.violation({"clause": "sink-content", **key}, f"sink {fi} of partition {list(part)} does not hold that frame's statements", rp)
            break
        wm = {k: bytes(v) for k, v in (frames[fi].get("meta") or {}).items()}
        if {k: bytes(v) for k, v in meta.items()} != wm:
            run.violation({"clause": "metadata", **key}, f"frame {fi} of partition {list(part)}: metadata visible {meta!r}, frame carries {wm!r}", rp)
            break
        if meta_f is not None and {k: bytes(v) for k, v in meta_f.items()} != wm:
            run.violation({"clause": "metadata-at-sink-creation", **key},
                          f"frame {fi} of partition {list(part)}: the sink factory saw metadata {meta_f!r}, the frame carries {wm!r}", rp)
            break
    return 2


def grouped_serialization(run, tier, seed):
    """One shared stream, a sequence of sinks: exactly one frame per non-empty sink, state carried across frames."""
    rnd = random.Random(seed)
    n = 0
    traces, cases = [], []
    for uni, integ in (("r11-triples", "generic"), ("r11-quads", "generic"), ("r11-triples", "rdflib"), ("r11-quads", "rdflib"), ("mix-triples", "generic")):
        c = U.SIM[uni]
        behs, _ = writer.simulate(c, num=15 if tier == "quick" else 150, hist_len=14, seed=seed + 7)
        for bi, beh in enumerate(behs):
            sub = writer.substitutions(seed)[bi % 3]
            stmts = [tuple(writer.abs_term(t, sub) for t in op["st"]) for op in beh["hist"] if op["op"] == "stmt"]
            groups, cur = [], []
            for st in stmts:
                cur.append(st)
                r = rnd.random()
                if r < 0.35:
                    groups.append(cur)
                    cur = []
                    if rnd.random() < 0.25:
                        groups.append([])           # an empty graph/dataset in the middle
            groups.append(cur)
            if bi % 5 == 0 and groups[0]:          # every fifth sequence starts with an empty graph/dataset
                groups = [[]] + groups
            if integ == "rdflib":                  # rdflib Graph/Dataset are sets
                groups = [list(dict.fromkeys(g)) for g in groups]
            ltype = 3 if c["PType"] == 1 else 4
            cfg = impl.default_cfg(integ=integ, entry="grouped_to_file", sclass=("triple" if c["PType"] == 1 else "quad"), ltype=ltype,
                                   preset=(c["MaxN"], c["MaxP"], c["MaxD"]), gen=(integ == "generic"), star=(integ == "generic"),
                                   groups=groups, dataset=(c["PType"] != 1))
            key = {"part": "grouped-serialization", "integ": integ, "universe": uni}
            rp = {"groups": groups, "cfg": {k: v for k, v in cfg.items() if k != "groups"}}
            data = _safe(impl.serialize, cfg, [s for g in groups for s in g])
            n += 1
            if isinstance(data, str):
                run.violation({"clause": "serializer-raised", **key}, data, rp)
                continue
            frames = wire.dec_delimited(data)
            nonempty = [g for g in groups if g]
            counts = [c_ for c_ in producer.denoting_per_frame(frames)]
            if len(frames) != len(nonempty):
                lead = (not groups[0] and len(frames) == len(nonempty) + 1 and [r["r"] for r in frames[0]["rows"]] == ["opt"])
                run.violation({"clause": "frames-vs-sinks", "leading_empty_sink_gets_options_only_frame": lead, **key},
                              f"{len(nonempty)} non-empty sinks written as {len(frames)} frames", rp)
                continue
            if counts != [len(g) for g in nonempty]:
                run.violation({"clause": "frame-content-count", **key}, f"statement rows per frame {counts}, sink sizes {[len(g) for g in nonempty]}", rp)
                continue
            cases.append((key, rp, frames, nonempty, integ))
            if integ == "generic":
                traces.append({"id": len(cases) - 1, "rows": terms.jrows_of_frames(frames), "mode": "seq",
                               "exp": [terms.jitem(terms.norm_item(s)) for g in nonempty for s in g]})
            else:
                # per-frame sets: iteration order inside an rdflib graph is not the insertion order
                traces.append({"id": len(cases) - 1, "rows": terms.jrows_of_frames(frames), "mode": "set",
                               "exp": [terms.jitem(terms.norm_item(s)) for s in dict.fromkeys(s for g in nonempty for s in g)]})
    # a graph/dataset larger than the default frame size, with the grouped flow given as an explicit flow object or inferred from the logical type
    I = lambda s_: ("iri", s_)  # noqa: E731
    for integ in ("generic", "rdflib"):
        for quads in (False, True):
            for how in ("explicit-flow-object", "logical-type"):
                mk = lambda k, n_: [(I(f"http://e/s{k}-{j}"), I("http://e/p"), I(f"http://e/o{j % 7}")) + ((I(f"http://g/{k}"),) if quads else ()) for j in range(n_)]  # noqa: E731
                groups = [mk(0, 2), mk(1, 300), mk(2, 2)]
                cfg = impl.default_cfg(integ=integ, entry="stream_frames", sclass=("quad" if quads else "triple"),
                                       ltype=(0 if how == "explicit-flow-object" else (4 if quads else 3)),
                                       flow=(("datasets" if quads else "graphs") if how == "explicit-flow-object" else None),
                                       preset=(4000, 150, 32), gen=False, star=False)
                key = {"part": "grouped-serialization", "integ": integ, "universe": "large-sinks", "flow": how}
                rp = {"cfg": cfg, "sink_sizes": [2, 300, 2]}
                n += 1
                try:
                    stream = impl.make_stream(cfg)
                    mod = __import__(f"pyjelly.integrations.{integ}.serialize", fromlist=["stream_frames"])
                    out_ = io.BytesIO()
                    for g_ in groups:
                        data_ = impl.generic_sink(g_) if integ == "generic" else impl.rdflib_container(g_, dataset=quads)
                        for fr in mod.stream_frames(stream, data_):
                            impl.write_delimited(fr, out_)
                    frames = wire.dec_delimited(out_.getvalue())
                except Exception as ex:  # noqa: BLE001
                    run.violation({"clause": "serializer-raised", **key}, f"{type(ex).__name__}: {ex}", rp)
                    continue
                counts = producer.denoting_per_frame(frames)
                if counts != [2, 300, 2]:
                    run.violation({"clause": "frames-vs-sinks", "leading_empty_sink_gets_options_only_frame": False, **key},
                                  f"three sinks of 2, 300 and 2 statements written as frames holding {counts} statements", rp)
                    continue
                cases.append((key, rp, frames, groups, integ))
                traces.append({"id": len(cases) - 1, "rows": terms.jrows_of_frames(frames), "mode": ("seq" if integ == "generic" else "set"),
                               "exp": [terms.jitem(s_) for g_ in groups for s_ in g_]})
    # an rdflib Dataset handed to a TripleStream with a GRAPHS logical type: its graphs are the input graphs, one frame each
    for lt in (3, 13):
        for sizes in ((2, 1, 1), (1, 4), (3,)):
            quads = []
            for gi, n_ in enumerate(sizes):
                g_ = ("dg",) if gi == len(sizes) - 1 and len(sizes) > 1 else I(f"http://g/{gi}")
                quads += [(I(f"http://e/s{gi}-{j}"), I("http://e/p"), I(f"http://e/o{j}"), g_) for j in range(n_)]
            cfg = impl.default_cfg(integ="rdflib", entry="stream_frames", sclass="triple", ltype=lt, gen=False, star=False, as_sink=True, dataset=True)
            key = {"part": "grouped-serialization", "integ": "rdflib", "universe": "dataset-through-triple-stream", "ltype": lt}
            rp = {"cfg": cfg, "graph_sizes": list(sizes)}
            n += 1
            data = _safe(impl.serialize, cfg, quads)
            if isinstance(data, str):
                run.violation({"clause": "serializer-raised", **key}, data, rp)
                continue
            counts = sorted(c_ for c_ in producer.denoting_per_frame(wire.dec_delimited(data)) if c_)
            if counts != sorted(sizes):
                run.violation({"clause": "frames-vs-sinks", "leading_empty_sink_gets_options_only_frame": False, **key},
                              f"a Dataset with graphs of {sorted(sizes)} triples written as frames holding {counts} statements", rp)
    verdicts = tlc.judge(traces)
    verdicts.pop("__stats__")
    for i, (key, rp, frames, nonempty, integ) in enumerate(cases):
        v = verdicts[i]
        if v["verdict"] != "ok":
            run.violation({"clause": "tier1:" + v["verdict"], **key}, f"frames written from shared stream do not decode to the sinks: {v['verdict']} at row {v['at']}", rp)
    return n, len(traces)


def main(tier: str) -> int:
    run = report.Run("C07", "model_checking", tier)
    seed = env.seed()
    rnd = random.Random(seed)
    lens = (5, 6, 7, 8) if tier == "quick" else (5, 6, 7, 8, 9, 10, 11)
    with ThreadPoolExecutor(6) as ex:
        # up to three empty frames (also consecutive, also leading) for the short sequences
        parts = dict(zip(lens, ex.map(lambda n: partitions(n, 3 if n <= 5 else 2 if n <= 6 else 1), lens)))
    states = sum(r.distinct for _, r in parts.values())
    trans = sum(r.generated for _, r in parts.values())
    # row sequences: reference encoder (generic and RDF 1.1 shapes) and the real serializer
    seqs = []
    for integ, rdf11 in (("generic", False), ("rdflib", True)):
        for name, c in producer.configs(rdf11=rdf11):           # TRIPLES, QUADS and GRAPHS, three table configurations each
            behs, _ = producer.simulate(dict(c), num=12 if tier == "quick" else 60, seed=seed + 70 + len(name), hist_len=6)
            for beh in behs:
                rows = [r for r in beh["rows"] if r["r"] != "cut"]
                if len(rows) in parts and beh["den"]:
                    seqs.append((integ, name, rows, [producer.den_item(d) for d in beh["den"]]))
    for uni, integ in (("mix-quads", "generic"), ("mix-graphs", "generic"), ("r11-triples", "rdflib"), ("r11-graphs", "rdflib")):
        c = U.SIM[uni]
        behs, _ = writer.simulate(c, num=8 if tier == "quick" else 40, hist_len=3, seed=seed + 71)
        for beh in behs:
            res = writer.replay_stepwise(beh, c, writer.Subst())
            rows = wire.rows_of(wire.dec_delimited(res["bytes"]))
            if len(rows) in parts and res["accepted"]:
                seqs.append((integ, "pyjelly:" + uni, rows, res["accepted"]))
    rnd.shuffle(seqs)
    budget = 60 if tier == "quick" else 600
    by_len: dict = {}
    by_src: dict = {}
    chosen = []
    for s in seqs:
        n = len(s[2])
        src = (s[0], s[1])
        if by_len.get(n, 0) < budget // len(lens) + 1 and by_src.get(src, 0) < max(3, budget // 22):      # every source (integration x type x tables) gets its share
            by_len[n] = by_len.get(n, 0) + 1
            by_src[src] = by_src.get(src, 0) + 1
            chosen.append(s)
    evaluations = 0
    samples = []
    for integ, name, rows, den in chosen:
        ps = parts[len(rows)][0]
        key = {"part": "re-partitioning", "integ": integ, "source": name}
        rp = {"rows": rows}
        sel = ps if (tier == "thorough" or len(ps) <= 200) else rnd.sample(ps, 200)
        for part in sel:
            evaluations += check_partition(run, key, rp, rows, den, part, integ)
        if len(samples) < 3:
            samples.append({"source": name, "rows": len(rows), "partitions": len(sel), "example": list(sel[len(sel) // 2])})
    # the same, with one frame (the first, a middle one) made larger than 1 MiB by its METADATA: the content is untouched, the frames behind it must still arrive
    big = 0
    seen_src: set = set()
    for integ, name, rows, den in chosen:
        if (integ, name) in seen_src or big >= (16 if tier == "quick" else 60):
            continue
        seen_src.add((integ, name))
        cand = [p for p in parts[len(rows)][0] if len(p) >= 3]
        for part in rnd.sample(cand, min(2, len(cand))):
            for big_at in (0, len(part) // 2):
                big += 1
                evaluations += check_partition(run, {"part": "re-partitioning-big-frame", "integ": integ, "source": name, "big_at": ("first" if big_at == 0 else "middle")},
                                               {"rows": rows}, rows, den, part, integ, big_at=big_at)
    gs, judged = grouped_serialization(run, tier, seed)
    if evaluations < 1000:
        env.machinery_failure(f"C07: only {evaluations} parses (vacuous)")
    return run.finish({
        "states": states, "transitions": trans, "traces_validated_against_impl": judged, "samples": samples, "exhaustive": True,
        "row_sequences": len(chosen), "partition_counts": {n: len(p) for n, (p, _) in parts.items()}, "parses": evaluations,
        "grouped_serializations": gs, "partitions_with_a_frame_over_1MiB": big,
        "explanation": "spec/Framing.tla enumerates every partition (with empty frames) of an N-row sequence; each partition of each TLC-generated row sequence is re-framed by "
                       "/verif's codec (every second frame carries metadata) and parsed flat and grouped by both integrations against the TLC-computed denotation; "
                       "grouped serialization of sink sequences through one shared stream is checked for one frame per non-empty sink and judged by TLC (TraceReader)",
    })
