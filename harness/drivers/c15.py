"""C15 -- all parsing entry points and both integrations agree."""
from __future__ import annotations

import random
from concurrent.futures import ThreadPoolExecutor

from .. import env, impl, producer, report, terms, tlc, universes as U, wire, writer
from .c04 import rdf_norm, split_ns


def _safe(fn, *a, **kw):
    try:
        return fn(*a, **kw)
    except Exception as ex:  # noqa: BLE001
        return f"EXC:{type(ex).__name__}:{str(ex)[:160]}"


def agree_on_bytes(run, key, rp, data, delimited, arbiter=None):
    """flat = concat(grouped) = to_graph within each integration; rdflib <-> generic term for term."""
    res = {}
    for integ in ("generic", "rdflib"):
        for entry in ("flat", "grouped", "to_graph"):
            if entry == "grouped" and not delimited:
                continue
            res[(integ, entry)] = _safe(impl.parse, integ, data, entry)
    n = len(res)
    errs = {k: v for k, v in res.items() if isinstance(v, str)}
    if errs and len(errs) != len(res):
        run.violation({"clause": "one-entry-point-raises", "which": sorted(f"{a}.{b}" for a, b in errs)[0], **key},
                      f"some entry points raise and others do not: {sorted((a + '.' + b, v[:60]) for (a, b), v in errs.items())}", rp)
        return n
    if errs:
        return n
    gflat = [rdf_norm(x) for x in res[("generic", "flat")]]
    rflat = [rdf_norm(x) for x in res[("rdflib", "flat")]]
    # the two integrations are compared EXACTLY (an explicit xsd:string datatype is a datatype both must report); only the comparison with the
    # Tier-1 denotation identifies "x"^^xsd:string with the plain literal
    gx, rx = [tuple(x) for x in res[("generic", "flat")]], [tuple(x) for x in res[("rdflib", "flat")]]
    if gflat == rflat and gx != rx:
        k = next((i for i, (a, b) in enumerate(zip(gx, rx)) if a != b), 0)
        run.violation({"clause": "integrations-differ-in-datatype", **key}, f"item {k}: generic {gx[k]!r} vs rdflib {rx[k]!r}", rp)
    if gflat != rflat:
        k = next((i for i, (a, b) in enumerate(zip(gflat, rflat)) if a != b), min(len(gflat), len(rflat)))
        hint = ""
        if arbiter is not None:
            want = [rdf_norm(x) for x in arbiter]
            hint = " (Tier-1 denotation sides with " + ("generic" if gflat == want else "rdflib" if rflat == want else "neither") + ")"
        run.violation({"clause": "integrations-differ", **key},
                      f"item {k}: generic {gflat[k] if k < len(gflat) else None!r} vs rdflib {rflat[k] if k < len(rflat) else None!r}{hint}", rp)
    if delimited:
        gg = [x for sink in res[("generic", "grouped")] for x in sink]
        if split_ns(gg) != split_ns(res[("generic", "flat")]):
            run.violation({"clause": "generic-grouped-vs-flat", **key}, "concatenated grouped parse differs from the flat parse", rp)
        rg = {rdf_norm(x) for sink in res[("rdflib", "grouped")] for x in sink}
        if rg != {x for x in rflat if x[0] != "ns"}:
            run.violation({"clause": "rdflib-grouped-vs-flat", **key}, "union of grouped parse differs from the flat parse", rp)
    if split_ns(res[("generic", "to_graph")]) != split_ns(res[("generic", "flat")]):
        run.violation({"clause": "generic-to-graph-vs-flat", **key}, "parse_jelly_to_graph differs from the flat parse", rp)
    if {rdf_norm(x) for x in res[("rdflib", "to_graph")]} != {x for x in rflat if x[0] != "ns"}:
        run.violation({"clause": "rdflib-to-graph-vs-flat", **key}, "parse_jelly_to_graph differs from the flat parse", rp)
    return n


USAGE = [0]


def usage_variants(run, key, rp, data, delimited):
    """The same bytes through the less common ways of calling the parsers: custom factories (subclasses), a target Graph/Dataset that is not empty,
    the plugin interface, GenericStatementSink.parse -- all must agree with the plain calls."""
    import io  # noqa: PLC0415
    import rdflib  # noqa: PLC0415
    from rdflib.graph import Dataset, Graph  # noqa: PLC0415
    from pyjelly.integrations.generic import parse as gp  # noqa: PLC0415
    from pyjelly.integrations.rdflib import parse as rpm  # noqa: PLC0415

    n = 0
    base_r = _safe(impl.parse, "rdflib", data, "to_graph")
    base_g = _safe(impl.parse, "generic", data, "to_graph")
    if isinstance(base_r, str) or isinstance(base_g, str):
        return n

    class MyGraph(Graph):
        pass

    class MyDataset(Dataset):
        pass

    gs = terms.generic_classes()

    class MySink(gs.GenericStatementSink):
        pass

    def rd(fn):
        try:
            return fn()
        except Exception as ex:  # noqa: BLE001
            return f"EXC:{type(ex).__name__}:{str(ex)[:120]}"

    # rdflib: custom factories
    res = rd(lambda: rpm.parse_jelly_to_graph(io.BytesIO(data), graph_factory=lambda: MyGraph(), dataset_factory=lambda: MyDataset()))
    n += 1
    if isinstance(res, str):
        run.violation({"clause": "usage:custom-factory-raised", "integ": "rdflib", **key}, res, rp)
    else:
        if not isinstance(res, (MyGraph, MyDataset)):
            run.violation({"clause": "usage:factory-ignored", "integ": "rdflib", **key}, f"parse_jelly_to_graph returned a {type(res).__name__}, not what the factory makes", rp)
        if {rdf_norm(x) for x in impl._items_of_rdflib_store(res)} != {rdf_norm(x) for x in base_r}:
            run.violation({"clause": "usage:custom-factory-differs", "integ": "rdflib", **key}, "content differs when the sinks come from custom factories", rp)
    if delimited:
        res = rd(lambda: list(rpm.parse_jelly_grouped(io.BytesIO(data), graph_factory=lambda: MyGraph(), dataset_factory=lambda: MyDataset())))
        n += 1
        if isinstance(res, str):
            run.violation({"clause": "usage:custom-factory-raised", "integ": "rdflib", "parse": "grouped", **key}, res, rp)
        elif any(not isinstance(x, (MyGraph, MyDataset)) for x in res):
            run.violation({"clause": "usage:factory-ignored", "integ": "rdflib", "parse": "grouped", **key}, "parse_jelly_grouped yielded sinks the factories did not make", rp)
    # rdflib: the plugin, into a target that already holds a statement
    is_ds = any(len(x) == 4 for x in base_r)
    marker = (rdflib.URIRef("urn:marker:s"), rdflib.URIRef("urn:marker:p"), rdflib.Literal("already here"))
    target = Dataset() if is_ds else Graph()
    (target.default_context if is_ds else target).add(marker)
    res = rd(lambda: target.parse(io.BytesIO(data), format="jelly"))
    n += 1
    if isinstance(res, str):
        run.violation({"clause": "usage:parse-into-nonempty-raised", "integ": "rdflib", **key}, res, rp)
    else:
        got = {rdf_norm(x) for x in impl._items_of_rdflib_store(target)}
        mk = rdf_norm(tuple(terms.from_rdflib(t) for t in marker) + ((("dg",),) if is_ds else ()))
        if got != {rdf_norm(x) for x in base_r} | {mk}:
            run.violation({"clause": "usage:parse-into-nonempty-differs", "integ": "rdflib", **key},
                          f"Graph.parse into a target holding one statement: {len(got)} statements afterwards, expected {len(set(map(rdf_norm, base_r)) | {mk})}", rp)
    # generic: custom sink factory, and GenericStatementSink.parse
    res = rd(lambda: gp.parse_jelly_to_graph(io.BytesIO(data), sink_factory=lambda: MySink()))
    n += 1
    if isinstance(res, str):
        run.violation({"clause": "usage:custom-factory-raised", "integ": "generic", **key}, res, rp)
    else:
        if not isinstance(res, MySink):
            run.violation({"clause": "usage:factory-ignored", "integ": "generic", **key}, f"parse_jelly_to_graph returned a {type(res).__name__}", rp)
        if split_ns([terms.item_from_generic(gp.Prefix(p_, i_)) for p_, i_ in res.namespaces] + [terms.item_from_generic(x) for x in res]) != split_ns(base_g):
            run.violation({"clause": "usage:custom-factory-differs", "integ": "generic", **key}, "content differs when the sink comes from a custom factory", rp)
    res = _safe(impl.parse, "generic", data, "sink_parse")
    n += 1
    if isinstance(res, str):
        run.violation({"clause": "usage:sink-parse-raised", "integ": "generic", **key}, res, rp)
    elif split_ns(res) != split_ns(base_g):
        run.violation({"clause": "usage:sink-parse-differs", "integ": "generic", **key}, "GenericStatementSink.parse differs from parse_jelly_to_graph", rp)
    return n


def main(tier: str) -> int:
    run = report.Run("C15", "model_checking", tier)
    seed = env.seed()
    rnd = random.Random(seed)
    num = 40 if tier == "quick" else 400
    # (a1) valid streams from the reference encoder (RDF 1.1 shapes)
    pjobs = producer.configs(rdf11=True)

    def psim(job):
        name, c = job
        return job, producer.simulate(c, num=num, seed=seed + 15 + len(name), hist_len=30)

    wsims = ["r11-triples", "r11-quads", "r11-graphs"]

    def wsim(k):
        return k, writer.simulate(U.SIM[k], num=num, hist_len=20, seed=seed + 150)

    with ThreadPoolExecutor(8) as ex:
        pf = list(ex.map(psim, pjobs))
        wf = dict(ex.map(wsim, wsims))
    parses = streams = 0
    gen_states = 0
    samples = []
    for (name, c), (behs, r) in pf:
        gen_states += r.generated
        for beh in behs:
            frames = producer.frames_of(beh["rows"])
            den = [producer.den_item(d) for d in beh["den"]]
            for delimited in ([True, False] if len(frames) == 1 else [True]):
                data = producer.to_bytes(frames, delimited)
                streams += 1
                parses += agree_on_bytes(run, {"source": "reference-encoder", "config": name, "delimited": delimited},
                                         {"rows": beh["rows"], "hex": data.hex()}, data, delimited, arbiter=den)
                if streams % 4 == 0:
                    USAGE[0] += 1
                    parses += usage_variants(run, {"source": "reference-encoder", "config": name, "delimited": delimited}, {"rows": beh["rows"], "hex": data.hex()}, data, delimited)
    # (a2) streams from pyjelly itself, and (b) byte-identical output of the two serializers
    subs = writer.substitutions(seed)
    identical = 0
    for uni in wsims:
        behs, r = wf[uni]
        gen_states += r.generated
        c = U.SIM[uni]
        for bi, beh in enumerate(behs):
            sub = subs[bi % len(subs)]
            stmts = []
            g = None
            for op in beh["hist"]:
                if op["op"] == "gs":
                    g = writer.abs_term(op["g"], sub)
                elif op["op"] == "stmt":
                    st = tuple(writer.abs_term(t, sub) for t in op["st"])
                    stmts.append(st + ((g,) if c["PType"] == 3 else ()))
            if not stmts:
                continue
            if bi % 3 == 0:
                XS = "http://www.w3.org/2001/XMLSchema#string"
                s0 = stmts[0]
                pair = [s0[:2] + (("lit", "Berlin", "", XS),) + s0[3:], s0[:2] + (("lit", "Berlin", "", ""),) + s0[3:], s0[:2] + (("lit", "Berlin", "", XS),) + s0[3:]]
                stmts = stmts[:1] + pair + stmts[1:]
            sclass = {1: "triple", 2: "quad", 3: "graph"}[c["PType"]]
            outs = {}
            entry = rnd.choice(["stream_frames", "flat_to_file"]) if c["PType"] != 3 else "stream_frames"
            fs = rnd.choice([1, 2, 5, 250])
            for integ in ("generic", "rdflib"):
                cfg = impl.default_cfg(integ=integ, entry=entry, sclass=sclass, ltype=(1 if c["PType"] == 1 else 2),
                                       preset=(c["MaxN"], c["MaxP"], c["MaxD"]), frame_size=fs, gen=False, star=False, as_sink=False,
                                       plain_tuples=(bi % 2 == 1))
                outs[integ] = _safe(impl.serialize, cfg, stmts)
            key = {"source": "pyjelly", "universe": uni, "entry": entry, "sub": sub.label}
            rp = {"statements": stmts, "entry": entry, "frame_size": fs}
            if isinstance(outs["generic"], str) or isinstance(outs["rdflib"], str):
                if isinstance(outs["generic"], str) != isinstance(outs["rdflib"], str):
                    run.violation({"clause": "one-serializer-raises", **key}, f"{outs['generic'] if isinstance(outs['generic'], str) else outs['rdflib']}", rp)
                continue
            if c["PType"] != 3:
                # GRAPHS from a quad iterator: the rdflib side rebuilds a Dataset (regrouping), so byte identity is only defined for TRIPLES/QUADS
                identical += 1
                if outs["generic"] != outs["rdflib"]:
                    fa, fb = wire.dec_delimited(outs["generic"]), wire.dec_delimited(outs["rdflib"])
                    ra, rb = wire.rows_of(fa), wire.rows_of(fb)
                    k = next((i for i, (a, b) in enumerate(zip(ra, rb)) if a != b), min(len(ra), len(rb)))
                    run.violation({"clause": "serializers-differ", **key},
                                  f"corresponding inputs and equal options give different bytes; first differing row {k}: "
                                  f"generic {ra[k] if k < len(ra) else None} vs rdflib {rb[k] if k < len(rb) else None}", rp)
            # the same statements as three sinks -- the middle one EMPTY -- through grouped_stream_to_file with a grouped logical type: identical bytes again
            if bi % 3 == 1 and c["PType"] != 3 and len(stmts) >= 2:
                k_ = len(stmts) // 2
                g_outs = {}
                for integ in ("generic", "rdflib"):
                    groups = [stmts[:k_], [], stmts[k_:]]
                    groups = [list(dict.fromkeys(g_)) for g_ in groups]              # (an rdflib Graph is a set; give both sides duplicate-free sinks)
                    cfg_g = impl.default_cfg(integ=integ, entry="grouped_to_file", sclass=sclass, ltype=(3 if c["PType"] == 1 else 4),
                                             preset=(c["MaxN"], c["MaxP"], c["MaxD"]), gen=False, star=False, groups=groups, dataset=(c["PType"] != 1))
                    g_outs[integ] = _safe(impl.serialize, cfg_g, [s_ for g_ in groups for s_ in g_])
                if all(isinstance(v, bytes) for v in g_outs.values()):
                    fa, fb = wire.dec_delimited(g_outs["generic"]), wire.dec_delimited(g_outs["rdflib"])
                    if [len(f_["rows"]) > 0 for f_ in fa] != [len(f_["rows"]) > 0 for f_ in fb] or len(fa) != len(fb):
                        run.violation({"clause": "serializers-differ", "entry": "grouped_to_file", "source": "pyjelly", "universe": uni, "sub": sub.label},
                                      f"three sinks (the middle one empty) written grouped: generic {len(fa)} frames with rows {[len(f_['rows']) for f_ in fa]}, "
                                      f"rdflib {len(fb)} frames with rows {[len(f_['rows']) for f_ in fb]}", {"groups": groups})
                elif isinstance(g_outs["generic"], str) != isinstance(g_outs["rdflib"], str):
                    run.violation({"clause": "one-serializer-raises", "entry": "grouped_to_file", "source": "pyjelly", "universe": uni, "sub": sub.label}, str(g_outs), {"groups": groups})
            data = outs["generic"]
            streams += 1
            parses += agree_on_bytes(run, key, dict(rp, hex=data.hex()), data, True, arbiter=stmts)
            if len(samples) < 3:
                samples.append({"key": key, "statements": [repr(s) for s in stmts[:2]], "bytes": len(data)})
    from .. import usage  # noqa: PLC0415

    ul = usage.read_lattice(run)
    parses += ul["read_lattice_parses"]
    gen_states += ul["tlc_states"]
    return run.finish({
        "usage_lattice": ul,
        "states": gen_states, "transitions": gen_states, "traces_validated_against_impl": streams, "samples": samples, "exhaustive": False,
        "streams": streams, "parses": parses, "serializer_pairs_compared": identical, "streams_through_usage_variants": USAGE[0],
        "explanation": "TLC-generated RDF 1.1 streams (JellyProducer: arbitrary legal choices; PyWriter behaviours through the real serializers) are parsed through all six "
                       "entry points: flat = concat(grouped) = to_graph within an integration, rdflib = generic term for term; the Tier-1 denotation arbitrates which side is "
                       "wrong; corresponding generic/rdflib statement iterators with equal options must serialize to identical bytes",
    })
