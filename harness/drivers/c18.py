"""C18 -- a statement too big for the lookup tables is refused, not corrupted."""
from __future__ import annotations

from concurrent.futures import ThreadPoolExecutor

from .. import env, report, terms, tlc, universes as U, wire, writer


def undersized_campaign(seed: int, n_beh: int, only=None):
    """Simulate PyWriter over the undersized-table universes, replay into real Streams (stopped at the first refusal), judge the bytes.
    Returns (cases, verdicts, tlc_states)."""
    unis = {k: v for k, v in U.c18_universes().items() if only is None or any(k.startswith(o) for o in only)}
    subs = writer.substitutions(seed)

    def sim(k):
        return k, writer.simulate(unis[k][1], num=n_beh, hist_len=4, seed=seed + 18)

    with ThreadPoolExecutor(8) as ex:
        sims = dict(ex.map(sim, list(unis)))
    traces, cases = [], []
    gen_states = 0
    predicted = 0
    for k, (behs, r) in sims.items():
        table, c = unis[k]
        gen_states += r.generated
        for bi, beh in enumerate(behs):
            sub = subs[bi % len(subs)]
            # IRI-only universes are RDF 1.1: every second behaviour goes through the rdflib integration's term encoder
            integ = "rdflib" if (table == "prefix" and bi % 2 == 1 and k != "c18-prefix-4-q6") else "generic"
            res = writer.replay_stepwise(beh, c, sub, stop_on_reject=True, integ=integ)
            frames = wire.dec_stream(res["bytes"], delimited=True)
            stmts = [op["st"] for op in beh["hist"] if op["op"] in ("stmt", "reject")]
            case = {"key": {"table": table, "universe": k, "sub": sub.label, "integ": integ}, "model_bad": beh["bad"], "res": res,
                    "replay": {"consts": c, "statements": stmts, "sub": sub.label, "accepted": res["accepted"], "raised": res["rejected"]}}
            first_rej = next((i for i, op in enumerate(beh["hist"]) if op["op"] == "reject"), None)
            case["model_reject_at"] = first_rej
            predicted += first_rej is not None
            cases.append(case)
            traces.append({"id": len(cases) - 1, "rows": terms.jrows_of_frames(frames), "mode": "seq",
                           "exp": [terms.jitem(terms.norm_item(it)) for it in res["accepted"]]})
    verdicts = tlc.judge(traces)
    jstats = verdicts.pop("__stats__")
    return cases, verdicts, gen_states, jstats, predicted


def main(tier: str) -> int:
    run = report.Run("C18", "model_checking", tier)
    seed = env.seed()
    cases, verdicts, gen_states, jstats, predicted = undersized_campaign(seed, 120 if tier == "quick" else 1500)

    # exhaustive part: small undersized universes, every reachable state x every call on real Streams (both term encoders); a call is either
    # refused (the stream is failed, what was written is a valid prefix) or its rows are valid and denote it -- judged by TLC on each real edge
    from .. import writergraph as wg  # noqa: PLC0415

    graph = {}
    plan = {"wg-c18pq": None, "wg-c18d": None, "wg-c18g": 1} if tier == "quick" else {"wg-c18p": None, "wg-c18pq": None, "wg-c18d": None, "wg-c18g": 2}
    cache: dict = {}
    for name, body_max in plan.items():
        for integ in ("generic", "rdflib"):
            if integ == "rdflib" and name not in wg.RDF11:
                continue
            st_, gst = wg.compare_slice(run, name, wg.slice_consts(name), body_max, integ=integ, model_cache=cache)
            if st_ is None:
                break
            graph[name + ("" if integ == "generic" else "/rdflib")] = st_
            gen_states += gst["states"]
    raised = bad_real = 0
    samples = []
    for i, case in enumerate(cases):
        v = verdicts[i]["verdict"]
        if case["res"]["rejected"]:
            raised += 1
        if v != "ok":
            bad_real += 1
            first = next((s for s in case["replay"]["statements"]), None)
            run.violation(case["key"], f"statement needing more {case['key']['table']} entries than the table holds was written without error "
                          f"but decodes differently ({v} at row {verdicts[i]['at']}); first statement {first}", case["replay"])
        real_rej = case["res"]["rejected"][0][0] if case["res"]["rejected"] else None
        if real_rej != case["model_reject_at"]:
            run.model_drift(f"{case['key']}: PyWriter refuses at op {case['model_reject_at']}, the real stream at op {real_rej}")
        if len(samples) < 3 and real_rej is not None:
            samples.append({"key": case["key"], "ops": case["replay"]["statements"][:3], "refused_at_op": real_rej, "exception": case["res"]["rejected"][0][1], "judge": v})
    if predicted == 0:
        env.machinery_failure("C18: the model never left the Fits region (vacuous)")
    return run.finish({
        "states": gen_states + jstats["states"], "transitions": gen_states + jstats["transitions"],
        "traces_validated_against_impl": len(cases), "samples": samples or [{"note": "no failing case"}], "exhaustive": False,
        "behaviours": len(cases), "state_graph_comparison": graph, "model_predicted_refusals": predicted, "real_corruption": bad_real, "serializer_refused": raised,
        "explanation": "state graph of small undersized universes walked on real Streams under both term encoders, every call refused or judged valid+faithful by TLC (inductive step); PyWriter with the Fits guard removed (CheckFits=FALSE) is simulated over universes whose statements need more prefix / datatype / "
                       "name entries than the table holds (max_prefixes 1-3, max_datatypes 1-3 with generalized literals, max_names 8 with nested quoted triples); "
                       "each behaviour is replayed into a real Stream, stopped at the first refusal, and the bytes are judged by TLC against the accepted statements",
    })
