"""C05 -- writer and reader lookup tables stay mirrored for all histories.

TLC closes spec/PyLookup.tla (index-canonical quotient of one table pair) for every size and rule;
the harness walks the SAME state graph on the real LookupEncoder / LookupDecoder objects
(breadth first, deep-copying at branch points, keyed by the same projection) and
  * judges every real transition by the Tier-1 table contract (resolves to the intended key,
    ids in [0,size], live entries <= size)  -> VIOLATION
  * compares the real transition set with TLC's (equality for small sizes, counts above) -> MODEL-DRIFT
"""
from __future__ import annotations

import copy
import itertools
import os
import json
import random
import time
from concurrent.futures import ThreadPoolExecutor

from .. import env, report, tlc
from ..writer import cfg_text

env.import_pyjelly()
from pyjelly.parse.lookup import LookupDecoder  # noqa: E402
from pyjelly.serialize.lookup import LookupEncoder  # noqa: E402

RULES = ("name", "prefix", "datatype")


class Pair:
    __slots__ = ("enc", "dec", "pc", "cur_key", "out", "ok", "why")

    def __init__(self, size):
        self.enc = LookupEncoder(lookup_size=size)
        self.dec = LookupDecoder(lookup_size=size)
        self.pc = "idle"
        self.cur_key = None
        self.out = [-1, -1]
        self.ok = True
        self.why = ""

    def clone(self):
        return copy.deepcopy(self)

    def project(self, size):
        data = self.enc.lookup.data
        by_index = {ix: k for k, ix in data.items()}
        sync = [by_index.get(i) is not None and self.dec.data[i - 1] == by_index.get(i) for i in range(1, size + 1)]
        return {"lru": list(data.values()), "lastA": self.enc.last_assigned_index, "lastU": self.enc.last_reused_index,
                "emptyAt": data.get("", 0), "sync": sync, "rLastA": self.dec.last_assigned_index,
                "rLastU": self.dec.last_reused_index, "pc": self.pc,
                "cur": (data.get(self.cur_key, 0) if self.cur_key is not None else 0), "out": list(self.out), "ok": self.ok}

    def fail(self, why):
        if self.ok:
            self.ok = False
            self.why = why

    # -- the two critical sections, exactly as TermEncoder / Decoder use the public methods
    def entry(self, key, size):
        self.cur_key = key
        eid = self.enc.encode_entry_index(key)
        self.out = [-1 if eid is None else eid, -1]
        if eid is not None:
            if not (0 <= eid <= size):
                self.fail(f"entry id {eid} outside [0,{size}]")
            try:
                self.dec.assign_entry(index=eid, value=key)
            except Exception as ex:  # noqa: BLE001
                self.fail(f"reader cannot ingest entry id {eid}: {type(ex).__name__}")
        try:
            live = len(self.enc.lookup.data)
        except AttributeError:
            live = 0                       # internals renamed: the live-entry count is not observable, ids and resolution still are
        if live > size:
            self.fail(f"{live} live entries in a table of {size}")
        self.pc = "term"

    def term(self, rule, size):
        key = self.cur_key
        tid = getattr(self.enc, f"encode_{rule}_term_index")(key)
        self.out = [self.out[0], tid]
        if not (0 <= tid <= size):
            self.fail(f"term id {tid} outside [0,{size}]")
        try:
            got = getattr(self.dec, f"decode_{rule}_term_index")(tid)
            if got != key:
                self.fail(f"term id {tid} resolves to {got!r}, writer meant {key!r}")
        except Exception as ex:  # noqa: BLE001
            self.fail(f"reader cannot resolve term id {tid}: {type(ex).__name__}: {ex}")
        self.pc = "idle"


def canon(d) -> str:
    return json.dumps(d, sort_keys=True, separators=(",", ":"))


def real_graph(size: int, rule: str, *, max_states: int, want_transitions: bool):
    """BFS over the real objects. Returns (states, n_transitions, transitions-set-or-None, failures, hidden_state_conflicts)."""
    fresh = itertools.count()
    root = Pair(size)
    seen = {canon(root.project(size)): None}
    queue = [root]
    trans = set() if want_transitions else None
    ntrans = 0
    failures = []
    conflicts = 0
    while queue:
        nxt = []
        for st in queue:
            src = canon(st.project(size))
            succs = []
            if st.pc == "idle":
                for key in list(st.enc.lookup.data):
                    s2 = st.clone()
                    s2.entry(key, size)
                    succs.append((f"hit:{st.enc.lookup.data[key]}", s2))
                s2 = st.clone()
                s2.entry(f"k{next(fresh)}", size)
                succs.append(("miss", s2))
                if rule == "prefix" and "" not in st.enc.lookup.data:
                    s2 = st.clone()
                    s2.entry("", size)
                    succs.append(("miss-empty", s2))
            else:
                s2 = st.clone()
                s2.term(rule, size)
                succs.append(("term", s2))
            for act, s2 in succs:
                dst = canon(s2.project(size))
                ntrans += 1
                if trans is not None:
                    trans.add(src + " -> " + dst)
                if not s2.ok and len(failures) < 20:
                    failures.append({"size": size, "rule": rule, "from": json.loads(src), "action": act, "why": s2.why})
                if dst not in seen:
                    seen[dst] = None
                    if s2.ok:
                        nxt.append(s2)
            if len(seen) > max_states:
                return len(seen), ntrans, trans, failures, conflicts, False
        queue = nxt
    return len(seen), ntrans, trans, failures, conflicts, True


def long_histories(run, rule: str, size: int, steps: int, rnd: random.Random, alphabet: int):
    """Random long histories on the real objects for sizes beyond the exhaustive ones (Tier-1 check only)."""
    p = Pair(size)
    keys = [f"key{i}" for i in range(alphabet)] + ([""] if rule == "prefix" else [])
    hist = []
    for _ in range(steps):
        k = rnd.choice(keys)
        hist.append(k)
        p.entry(k, size)
        p.term(rule, size)
        if not p.ok:
            run.violation({"clause": "long-history", "rule": rule, "size": size}, p.why, {"history": hist[-200:], "size": size, "rule": rule})
            return len(hist)
    return len(hist)


def apalache_inductive(size: int, rule: str, timeout=1500):
    """Apalache: Init => IndInv (length 0) and IndInv and Next => IndInv' (length 1) on spec/apalache/PyLookupInd.tla; plus two probes
    that must be VIOLATED from IndInit (the inductive hypothesis is not vacuous)."""
    import shutil  # noqa: PLC0415
    import subprocess  # noqa: PLC0415
    import tempfile  # noqa: PLC0415

    d = tempfile.mkdtemp(prefix="apa-", dir=env.workdir())
    shutil.copy(os.path.join(env.SPEC, "apalache", "PyLookupInd.tla"), d)
    mc = f"MC_{rule}_{size}"
    with open(os.path.join(d, mc + ".tla"), "w") as f:
        f.write(f'---- MODULE {mc} ----\nEXTENDS PyLookupInd\nCInit == Size = {size} /\\ Rule = "{rule}"\n====\n')

    def go(init, inv, length):
        p = subprocess.run(["apalache-mc", "check", "--cinit=CInit", f"--init={init}", f"--inv={inv}", f"--length={length}", f"--out-dir={d}/out", mc + ".tla"],
                           cwd=d, capture_output=True, text=True, timeout=timeout,
                           env=dict(os.environ, TMPDIR=d))      # the launcher makes a SANY* scratch directory with mktemp: keep it inside the run's own directory
        return "NoError" if "The outcome is: NoError" in p.stdout else "Error" if "The outcome is: Error" in p.stdout else "FAILED:" + p.stdout[-300:]

    res = {"base": go("Init", "IndInv", 0), "step": go("IndInit", "IndInv", 1),
           "probe_full_table": go("IndInit", "ProbeNotFull", 0), "probe_key_in_use": go("IndInit", "ProbeIdle", 0)}
    shutil.rmtree(d, ignore_errors=True)
    return res


def tlaps_check():
    import re  # noqa: PLC0415
    import shutil  # noqa: PLC0415
    import subprocess  # noqa: PLC0415

    d = os.path.join(env.workdir(), "tlaps")
    src = open(os.path.join(env.SPEC, "proofs", "LookupAbs.tla")).read()
    prf = open(os.path.join(env.SPEC, "proofs", "LookupAbsProofs.tla")).read()
    bad = src.replace("ref == IF t = 0 THEN rLastU + 1 ELSE t", "ref == IF t = 0 THEN rLastU + 2 ELSE t")
    if bad.count("rLastU + 2") != 1:
        env.machinery_failure("C05: the non-vacuity variant of LookupAbs could not be made")
    out = {}
    for name, text in (("good", src), ("bad", bad)):
        dd = os.path.join(d, name)
        os.makedirs(dd, exist_ok=True)
        with open(os.path.join(dd, "LookupAbs.tla"), "w") as f:
            f.write(text)
        with open(os.path.join(dd, "LookupAbsProofs.tla"), "w") as f:
            f.write(prf)
        try:
            p = subprocess.run(["tlapm", "--nofp", "LookupAbsProofs.tla"], cwd=dd, capture_output=True, text=True, timeout=900)
        except (OSError, subprocess.TimeoutExpired) as ex:
            env.machinery_failure(f"C05: tlapm could not be run: {ex}")
        txt = p.stdout + p.stderr
        m = re.search(r"All (\d+) obligations? proved", txt)
        out[name] = int(m.group(1)) if m else 0
        if name == "good" and not m:
            env.machinery_failure("C05: TLAPS no longer proves spec/proofs/LookupAbsProofs.tla:\n" + "\n".join(l for l in txt.splitlines() if "ERROR" in l or "obligation" in l)[:600])
        if name == "bad" and m:
            env.machinery_failure("C05: TLAPS proves the deliberately wrong variant of LookupAbs: the theorem is vacuous")
    shutil.rmtree(d, ignore_errors=True)
    return {"obligations_proved": out["good"], "wrong_variant_refused": True}


def main(tier: str) -> int:
    run = report.Run("C05", "model_checking", tier)
    rnd = random.Random(env.seed())
    sizes = range(1, 7) if tier == "quick" else range(1, 9)
    dump_upto = 4 if tier == "quick" else 5
    jobs = [(s, r) for s in sizes for r in RULES if not (tier == "quick" and s == 6 and r == "prefix")]

    def tlc_job(job):
        size, rule = job
        dump = size <= dump_upto
        cfg = cfg_text({"Size": size, "Rule": f'"{rule}"'}, ("Resolves", "Bounded", "Registers", "IdsInRange"),
                       extra=("ACTION_CONSTRAINT LogTr" if dump else ""))
        cfg = cfg.replace(f' Rule <- "{rule}"', f' Rule = "{rule}"')
        return job, tlc.run("PyLookup", cfg, workers=(1 if dump else 4), timeout=1200), dump

    # soundness of the quotient: the concrete-key model refines PyLookup (TLC checks the refinement mapping, sizes 1..3/4, Size+2 keys)
    def refine_job(job):
        size, rule = job
        keys = ", ".join(str(k) for k in (range(0, size + 2) if rule == "prefix" else range(1, size + 3)))
        text = f"---- MODULE MCKeys ----\nEXTENDS PyLookupKeys\nKS == {{{keys}}}\n====\n"
        cfg = f'SPECIFICATION Spec\nCONSTANTS Size = {size} Rule = "{rule}" Keys <- KS\nINVARIANT AllResolve\nPROPERTY Refines\nPROPERTY ImplementsProved\nCHECK_DEADLOCK FALSE\n'
        return job, tlc.run("MCKeys", cfg, module_text=text, workers=2, timeout=900)

    # the abstraction every table pair with ANY eviction choice implements is proved safe by TLAPS for every size (spec/proofs/LookupAbs.tla);
    # the proof is re-checked here, and a deliberately wrong variant (name rule: 0 = last + 2) must be refused
    proof = tlaps_check()
    t0 = time.time()
    apa_jobs = [(8, "prefix")] if tier == "quick" else [(8, r_) for r_ in RULES] + [(16, r_) for r_ in RULES]
    apa_pool = ThreadPoolExecutor(6)
    apa_futs = {j: apa_pool.submit(apalache_inductive, *j) for j in apa_jobs}
    with ThreadPoolExecutor(6) as ex:
        model = list(ex.map(tlc_job, jobs))
        refinements = list(ex.map(refine_job, [(s_, r_) for s_ in (range(1, 4) if tier == "quick" else range(1, 5)) for r_ in RULES]))
    ref_states = 0
    for (size, rule), rr in refinements:
        if rr.violated or not rr.ok:
            env.machinery_failure(f"C05: PyLookupKeys does not refine PyLookup (size {size}, {rule}): {rr.violated or rr.errors[:2]} -- the quotient model is unsound")
        ref_states += rr.distinct
    tlc_wall = time.time() - t0
    states = trans = 0
    table = {}
    real_transitions = 0
    samples = []
    for (size, rule), r, dump in model:
        if r.violated or not r.ok:
            env.machinery_failure(f"C05: PyLookup size={size} rule={rule}: TLC reports {r.violated or r.errors[:2]} on the MODEL "
                                  f"(a prediction to be replayed, not a verdict)\n" + "\n".join(r.out.splitlines()[-20:]))
        states += r.distinct
        trans += r.generated
        mtr = None
        if dump:
            mtr = set()
            for payload in r.printed("TR"):
                a, b = json.loads(payload)
                mtr.add(canon(a) + " -> " + canon(b))
        # the walk on real objects costs ~150 us per transition (deep copies): above the budget the size is closed on the model only
        budget = 400_000 if tier == "quick" else 3_000_000
        if r.generated > budget:
            table[f"{rule}/{size}"] = {"model_states": r.distinct, "model_transitions": r.generated - 1, "real_states": None,
                                       "note": "closed by TLC on the model only (real-object walk over budget); long random histories cover this size"}
            continue
        try:
            n_states, n_trans, rtr, failures, _, complete = real_graph(size, rule, max_states=2_000_000, want_transitions=dump)
        except AttributeError as ex:
            # the projection reads internals (Lookup.data, last_*_index, LookupDecoder.data): if they were renamed the state graph
            # cannot be compared (Tier 2), but the table contract is still judged through the public methods below
            if not table.get("_projection_unavailable"):
                run.model_drift(f"state projection of the lookup objects unavailable ({ex}); only the API-level histories are judged")
                table["_projection_unavailable"] = str(ex)
            continue
        real_transitions += n_trans
        for f in failures:
            run.violation({"clause": "table-contract", "rule": rule, "size": size, "action": f["action"].split(":")[0]},
                          f"size {size}, {rule} rule: {f['why']}", f)
        entry = {"model_states": r.distinct, "real_states": n_states, "model_transitions": r.generated - 1, "real_transitions": n_trans}
        if not failures:
            if n_states != r.distinct:
                run.model_drift(f"size {size} {rule}: real objects reach {n_states} projected states, PyLookup {r.distinct}")
            if mtr is not None and rtr is not None and mtr != rtr:
                only_m = sorted(mtr - rtr)[:1]
                only_r = sorted(rtr - mtr)[:1]
                run.model_drift(f"size {size} {rule}: transition sets differ; only in model {only_m}; only in code {only_r}")
                entry["transition_sets_equal"] = False
            elif mtr is not None:
                entry["transition_sets_equal"] = True
        table[f"{rule}/{size}"] = entry
        if len(samples) < 3 and rtr:
            samples.append({"rule": rule, "size": size, "transition": sorted(rtr)[len(rtr) // 2]})
    # beyond the exhaustive sizes: long random histories on the real tables (sizes 8..64, 4096)
    steps = 0
    for rule in RULES:
        for size in ((8, 16, 64) if tier == "quick" else (8, 9, 16, 32, 64, 150, 4096)):
            for alpha in (size + 2, 2 * size + 1):
                steps += long_histories(run, rule, size, 3000 if tier == "quick" else 30000, rnd, alpha)
    # the tables as the serializer drives them (TermEncoder -> rows -> reader): histories in which one statement mixes resident and new
    # keys in tables of 1-3 slots; every id on the wire must resolve to the string the writer meant, or the writer must refuse
    from .c18 import undersized_campaign  # noqa: PLC0415

    cases18, verdicts18, gen18, _, _ = undersized_campaign(env.seed() + 5, 60 if tier == "quick" else 600)
    e2e = 0
    for i, case in enumerate(cases18):
        v = verdicts18[i]["verdict"]
        e2e += 1
        if v != "ok":
            run.violation({"clause": "end-to-end-resolution", "table": case["key"]["table"]},
                          f"through the serializer, an id on the wire does not resolve to the string the writer meant ({v} at row {verdicts18[i]['at']}); "
                          f"statements {case['replay']['statements'][:2]}", case["replay"])
        # ... and on the READER side as the parser drives its tables (Decoder on top of LookupDecoder): what comes back is what the writer meant
        from .. import impl as _impl, terms as _terms  # noqa: PLC0415
        try:
            back = [_terms.norm_item(x) for x in _impl.parse("generic", case["res"]["bytes"], "flat")] if case["res"]["bytes"] else []
        except Exception as ex:  # noqa: BLE001
            back = f"{type(ex).__name__}: {str(ex)[:80]}"
        want_b = [_terms.norm_item(x) for x in case["res"]["accepted"]]
        if back != want_b:
            run.violation({"clause": "end-to-end-resolution-reader", "table": case["key"]["table"]},
                          f"through serializer and parser, the statements read back differ from those written ({back if isinstance(back, str) else 'item ' + str(next((k for k, (a, b) in enumerate(zip(back, want_b)) if a != b), min(len(back), len(want_b))))})",
                          case["replay"])
    states += gen18
    trans += gen18
    real_transitions += e2e
    apa = {}
    for (size, rule), fut in apa_futs.items():
        try:
            r_ = fut.result(timeout=3000)
        except Exception as ex:  # noqa: BLE001
            r_ = {"base": f"FAILED:{ex}", "step": "", "probe_full_table": "", "probe_key_in_use": ""}
        apa[f"{rule}/{size}"] = r_
        if r_["base"] != "NoError" or r_["step"] != "NoError":
            env.machinery_failure(f"C05: Apalache does not confirm the inductive invariant of PyLookupInd for {rule}/{size}: {r_}")
        if r_["probe_full_table"] != "Error" or r_["probe_key_in_use"] != "Error":
            env.machinery_failure(f"C05: the inductive hypothesis of PyLookupInd looks vacuous for {rule}/{size}: {r_}")
    apa_pool.shutdown()
    return run.finish({
        "states": states, "transitions": trans, "traces_validated_against_impl": real_transitions, "end_to_end_histories": e2e,
        "apalache_inductive_invariant": apa,
        "samples": samples, "exhaustive": True, "per_table": table, "long_history_steps": steps,
        "tlc_wall_s": round(tlc_wall, 1), "quotient_refinement_states": ref_states,
        "tlaps": proof,
        "explanation": "spec/proofs/LookupAbs.tla: TLAPS proves Mirrored / Bounded / Resolves for EVERY table size, key set and eviction choice (LookupAbsProofs); TLC checks that spec/PyLookupKeys.tla implements it (refinement mapping); spec/PyLookupKeys.tla (concrete keys) refines spec/PyLookup.tla (index-canonical quotient): checked by TLC as a refinement mapping; TLC closes PyLookup for every size/rule (closure under every next key = all histories); the same graph is walked on real "
                       "LookupEncoder/LookupDecoder objects; traces_validated_against_impl counts real transitions, each judged by the table contract",
    })
