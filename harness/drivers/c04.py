"""C04 -- every valid Jelly stream decodes to exactly the statements it encodes."""
from __future__ import annotations

import io
import json
from concurrent.futures import ThreadPoolExecutor

from .. import env, impl, producer, report, terms, tlc, wire


def _safe(fn, *a, **kw):
    try:
        return fn(*a, **kw)
    except Exception as ex:  # noqa: BLE001
        return f"EXC:{type(ex).__name__}:{str(ex)[:160]}"


def split_ns(items):
    ns = {}
    st = []
    for it in items:
        if it[0] == "ns":
            ns[it[1]] = it[2]
        else:
            st.append(terms.norm_item(it))
    return ns, st


def compare_generic(run, key, rp, den, frames, data, delimited):
    n = 0
    want = [terms.norm_item(x) for x in den]
    flat = _safe(impl.parse, "generic", data, "flat")
    n += 1
    if isinstance(flat, str):
        run.violation({"clause": "valid-stream-rejected", "parse": "generic.flat", **key}, f"parser raised on a valid stream: {flat}", rp)
        return n
    got = [terms.norm_item(x) for x in flat]
    for label, src in impl.other_sources(data):
        alt = _safe(impl.parse, "generic", src, "flat")
        n += 1
        if isinstance(alt, str):
            run.violation({"clause": "valid-stream-rejected", "parse": "generic.flat", "source": label, **key}, f"parser raised on a valid stream read from {label}: {alt}", rp)
        elif [terms.norm_item(x) for x in alt] != got:
            run.violation({"clause": "denotation-differs", "parse": "generic.flat", "source": label, **key}, f"read from {label}: {len(alt)} items, from BytesIO {len(got)}", rp)
    if got != want:
        k = next((i for i, (a, b) in enumerate(zip(got, want)) if a != b), min(len(got), len(want)))
        run.violation({"clause": "denotation-differs", "parse": "generic.flat", **key},
                      f"item {k}: stream denotes {want[k] if k < len(want) else None!r}, parser returned {got[k] if k < len(got) else None!r} "
                      f"({len(want)} vs {len(got)} items)", rp)
    if delimited:
        grouped = _safe(impl.parse, "generic", data, "grouped")
        n += 1
        counts = producer.denoting_per_frame(frames)
        if isinstance(grouped, str):
            run.violation({"clause": "valid-stream-rejected", "parse": "generic.grouped", **key}, grouped, rp)
        else:
            pos = 0
            ok = len(grouped) == len(frames)
            for fi, cnt in enumerate(counts):
                if not ok:
                    break
                wns, wst = split_ns(den[pos:pos + cnt])
                gns, gst = split_ns(grouped[fi])
                pos += cnt
                ok = (wst == gst and wns == gns)
            if not ok:
                run.violation({"clause": "grouped-differs", "parse": "generic.grouped", **key},
                              f"grouped parse: {len(grouped)} sinks for {len(frames)} frames, or a frame's content differs", rp)
    tg = _safe(impl.parse, "generic", data, "to_graph")
    n += 1
    if isinstance(tg, str):
        run.violation({"clause": "valid-stream-rejected", "parse": "generic.to_graph", **key}, tg, rp)
    elif split_ns(tg) != split_ns(den):
        run.violation({"clause": "to-graph-differs", "parse": "generic.to_graph", **key}, "parse_jelly_to_graph content differs from the denotation", rp)
    return n


def rdf_norm(it):
    """Items parsed by the rdflib integration in comparable form.

    Language tags are compared EXACTLY (same spelling as in the stream): rdflib's Literal keeps the spelling it is given and only its
    __eq__/__hash__ fold case, so two spellings of one tag would collapse inside a Graph -- the universes never contain two spellings
    of the same tag on the same lexical form, which keeps set comparisons exact as well."""
    if it[0] == "ns":
        return it
    return terms.norm_item(it)


def compare_rdflib(run, key, rp, den, frames, data, delimited):
    n = 0
    want = [rdf_norm(x) for x in den]
    flat = _safe(impl.parse, "rdflib", data, "flat")
    n += 1
    if isinstance(flat, str):
        run.violation({"clause": "valid-stream-rejected", "parse": "rdflib.flat", **key}, f"parser raised on a valid stream: {flat}", rp)
        return n
    got = [rdf_norm(x) for x in flat]
    if got != want:
        k = next((i for i, (a, b) in enumerate(zip(got, want)) if a != b), min(len(got), len(want)))
        lex = k < len(want) and k < len(got) and want[k][0] != "ns" and any(
            a[0] == "lit" and b[0] == "lit" and a[1] != b[1] and a[2:] == b[2:] for a, b in zip(want[k], got[k]))
        run.violation({"clause": "denotation-differs", "parse": "rdflib.flat", "lexical_form_changed": bool(lex), **key},
                      f"item {k}: stream denotes {want[k] if k < len(want) else None!r}, parser returned {got[k] if k < len(got) else None!r}", rp)
        return n
    wst = {x for x in want if x[0] != "ns"}
    tg = _safe(impl.parse, "rdflib", data, "to_graph")
    n += 1
    if isinstance(tg, str):
        run.violation({"clause": "valid-stream-rejected", "parse": "rdflib.to_graph", **key}, tg, rp)
    elif {rdf_norm(x) for x in tg} != wst:
        run.violation({"clause": "to-graph-differs", "parse": "rdflib.to_graph", **key}, "parse_jelly_to_graph set differs from the denotation", rp)
    if delimited:
        grouped = _safe(impl.parse, "rdflib", data, "grouped")
        n += 1
        if isinstance(grouped, str):
            run.violation({"clause": "valid-stream-rejected", "parse": "rdflib.grouped", **key}, grouped, rp)
        else:
            counts = producer.denoting_per_frame(frames)
            pos, ok = 0, len(grouped) == len(frames)
            for fi, cnt in enumerate(counts):
                if not ok:
                    break
                w = {x for x in want[pos:pos + cnt] if x[0] != "ns"}
                pos += cnt
                ok = {rdf_norm(x) for x in grouped[fi]} == w
            if not ok:
                run.violation({"clause": "grouped-differs", "parse": "rdflib.grouped", **key}, "grouped parse differs per frame", rp)
    return n


def main(tier: str) -> int:
    run = report.Run("C04", "model_checking", tier)
    seed = env.seed()
    num = 60 if tier == "quick" else 600
    jobs = [("generic", n, c) for n, c in producer.configs(rdf11=False)] + [("rdflib", n, c) for n, c in producer.configs(rdf11=True)]

    def sim(job):
        integ, name, c = job
        return job, producer.simulate(c, num=num, seed=seed + 4 + len(name), hist_len=30 if tier == "quick" else 60)

    from .. import readergraph as rg  # noqa: PLC0415

    graph_unis = ["triples-names", "quads-prefix", "triples-star-s", "triples-star-o"] + (["graphs-datatype"] if tier == "thorough" else [])
    with ThreadPoolExecutor(10) as ex:
        graphs_f = [ex.submit(rg.explore, u) for u in graph_unis]
        sims = list(ex.map(sim, jobs))
        graphs = [f.result() for f in graphs_f]
    # (i) reader state graph: every reachable reader state x every legal next row, on a real Decoder
    graph_stats = {}
    gstates = gtrans = 0
    for u, (edges, faults_at, gr) in zip(graph_unis, graphs):
        try:
            _probe = rg.project(rg.make_decoder({'r': 'opt', 'name': '', 'pt': 1, 'gen': False, 'star': False, 'mn': 8, 'mp': 0, 'md': 0, 'lt': 0, 'ver': 1}), (1, 0, 0))
        except AttributeError as ex:
            run.model_drift(f'state projection of Decoder unavailable ({ex}): reader state-graph comparison skipped')
            break
        for integ_ in (("generic",) if u in rg.RDF_STAR else ("generic", "rdflib")):      # RDF 1.1 universes: both integrations' adapters sit on the same Decoder
            st = rg.walk(u, edges, faults_at={}, integ=integ_,
                         on_violation=lambda clause, what, rp, u=u, integ_=integ_: run.violation(
                             {"clause": clause, "binding": "reader-state-graph", "universe": u, "integ": integ_}, what, rp),
                         on_drift=run.model_drift)
            graph_stats[u + ("" if integ_ == "generic" else "/rdflib")] = dict(st, tlc_states=gr.distinct)
            gtrans += st["edges_replayed"]
        gstates += gr.distinct
    gen_states = 0
    parses = streams = 0
    samples = []
    traces = []
    for (integ, name, c), (behs, r) in sims:
        gen_states += r.generated
        for bi, beh in enumerate(behs):
            frames = producer.frames_of(beh["rows"])
            den = [producer.den_item(d) for d in beh["den"]]
            variants = [(True, producer.to_bytes(frames, True))]
            if len(frames) == 1:
                variants.append((False, producer.to_bytes(frames, False)))
            for delimited, data in variants:
                streams += 1
                key = {"config": name, "integ": integ, "delimited": delimited}
                rp = {"rows": beh["rows"], "denotes": beh["den"], "options": beh["opt"], "delimited": delimited, "hex": data.hex()}
                if integ == "generic":
                    parses += compare_generic(run, key, rp, den, frames, data, delimited)
                    parses += compare_rdflib(run, dict(key, integ="rdflib-on-generic-stream"), rp, den, frames, data, delimited) if False else 0
                else:
                    parses += compare_rdflib(run, key, rp, den, frames, data, delimited)
            if bi == 0 and integ == "generic" and name.startswith("small") and den:
                # the same behaviour with one lexical form blown up to 1.5 MiB (the denotation follows: lexical forms pass through unchanged),
                # an extra frame cut after the first statement row so that the large frame is NOT the last one
                big = "B" * 1_572_000
                orig = next((r_[sl]["lex"] for r_ in beh["rows"] for sl in "spo" if isinstance(r_.get(sl), dict) and r_[sl].get("t") == "lit"), None)

                def blow(x):
                    # a consistent renaming of one lexical form, wherever it occurs (rows, nested terms, graph names -- and the denotation)
                    if isinstance(x, dict):
                        return {k_: (big if (k_ == "lex" and v_ == orig) else blow(v_)) for k_, v_ in x.items()}
                    if isinstance(x, list):
                        return [blow(v_) for v_ in x]
                    return x

                done = orig is not None
                if done:
                    rows2, cut_done = [], False
                    for r_ in beh["rows"]:
                        r2 = blow(json.loads(json.dumps(r_)))
                        rows2.append(r2)
                        if not cut_done and r2["r"] in ("triple", "quad") and json.dumps(r2) != json.dumps(r_):
                            rows2.append({"r": "cut"})
                            cut_done = True
                    den2 = [blow(json.loads(json.dumps(d_))) for d_ in beh["den"]]
                    frames2 = producer.frames_of(rows2)
                    data2 = producer.to_bytes(frames2, True)
                    streams += 1
                    parses += compare_generic(run, {"config": name + "+frame>1MiB", "integ": "generic", "delimited": True},
                                              {"rows": "as the first behaviour, one lexical form of 1.5 MiB", "hex": data2[:200].hex()},
                                              [producer.den_item(d) for d in den2], frames2, data2, True)
            if len(samples) < 3 and den:
                samples.append({"config": name, "rows": beh["rows"][:6], "denotes_first": beh["den"][:1]})
    # valid streams that DECLARE a grouped logical subtype, parsed by the grouped parsers with the strict check on: accepted, same content as non-strict
    from pyjelly.integrations.generic import parse as _gp  # noqa: PLC0415
    from pyjelly.integrations.rdflib import parse as _rp  # noqa: PLC0415

    _bn = {"t": "bn", "v": "b"}
    for pt, lts in ((1, (3, 13)), (2, (4, 14, 114)), (3, (4, 14, 114))):
        for lt in lts:
            opt = {"r": "opt", "name": "", "pt": pt, "gen": False, "star": False, "mn": 8, "mp": 0, "md": 0, "lt": lt, "ver": 1}
            body = ([{"r": "triple", "s": _bn, "p": _bn, "o": _bn}] if pt == 1 else [{"r": "quad", "s": _bn, "p": _bn, "o": _bn, "g": {"t": "dg"}}] if pt == 2 else
                    [{"r": "gs", "g": {"t": "dg"}}, {"r": "triple", "s": _bn, "p": _bn, "o": _bn}, {"r": "ge"}])
            data = wire.enc_delimited([{"rows": [opt] + body}, {"rows": body}])
            for integ_, m_ in (("generic", _gp), ("rdflib", _rp)):
                streams += 1
                res_ = {}
                for strict in (False, True):
                    try:
                        res_[strict] = [len(x) for x in m_.parse_jelly_grouped(io.BytesIO(data), logical_type_strict=strict)]
                    except Exception as ex:  # noqa: BLE001
                        res_[strict] = f"{type(ex).__name__}: {str(ex)[:80]}"
                parses += 2
                if isinstance(res_[True], str) or res_[True] != res_[False]:
                    run.violation({"clause": "valid-stream-rejected", "parse": f"{integ_}.grouped(strict)", "config": f"declared-logical-type-{lt}", "integ": integ_, "delimited": True},
                                  f"a valid stream declaring physical type {pt} and logical type {lt}: grouped parser with logical_type_strict=True gives {res_[True]}, without {res_[False]}",
                                  {"hex": data.hex()})
    # the Jelly files committed with the repository (written by whatever tool its authors used): Tier 1 must accept them, and pyjelly must
    # read exactly what Tier 1 says they denote
    import subprocess  # noqa: PLC0415
    from .. import tlc as _tlc  # noqa: PLC0415

    shipped = subprocess.run(["git", "-C", env.REPO, "ls-files", "*.jelly"], capture_output=True, text=True).stdout.split()
    ftraces, fmeta = [], []
    for rel in shipped:
        data = subprocess.run(["git", "-C", env.REPO, "show", "HEAD:" + rel], capture_output=True, check=True).stdout    # the committed bytes (tests rewrite some)
        try:
            frames = wire.dec_stream(data, delimited=True)
        except wire.WireError:
            continue                                       # not a delimited Jelly stream (none today)
        try:
            gen = impl.parse("generic", data, "flat")
            rdf = impl.parse("rdflib", data, "flat")
        except Exception as ex:  # noqa: BLE001
            run.violation({"clause": "shipped-file-unreadable", "file": rel}, f"{type(ex).__name__}: {str(ex)[:100]}", {"file": rel})
            continue
        streams += 1
        parses += 2
        if [rdf_norm(x) for x in rdf] != [terms.norm_item(x) for x in gen]:
            run.violation({"clause": "integrations-differ", "file": rel}, "the two integrations read a file shipped with the repository differently", {"file": rel})
        fmeta.append(rel)
        ftraces.append({"id": len(fmeta) - 1, "rows": terms.jrows_of_frames(frames), "mode": "seq", "exp": [terms.jitem(terms.norm_item(x)) for x in gen]})
    if ftraces:
        fv = _tlc.judge(ftraces)
        fv.pop("__stats__")
        for i_, v_ in fv.items():
            if v_["verdict"] != "ok":
                run.violation({"clause": "shipped-file:" + v_["verdict"], "file": fmeta[i_]},
                              f"a Jelly file shipped with the repository: Tier-1 verdict {v_['verdict']} at row {v_['at']} (denotation vs. what pyjelly reads)", {"file": fmeta[i_]})
    return run.finish({
        "states": gen_states + gstates, "transitions": gen_states + gtrans, "traces_validated_against_impl": streams + gtrans, "samples": samples, "exhaustive": False,
        "streams": streams, "parses": parses, "reader_state_graph": graph_stats,
        "explanation": "(i) reader state graph: TLC closes JellyProducer in tiny universes (Exhaustive=TRUE) and prints every transition (reader state, legal row, reader state', item); "
                       "the harness walks the graph on a real Decoder, one test per transition, comparing the decoded item and the projected state. (ii) JellyProducer (= every row sequence the Tier-1 reader accepts: arbitrary slot choice/eviction, splits, explicit-or-zero ids, elision or not, "
                       "early/redundant entries, repeated options, cuts, empty frames, ids at the top of 4096-entry tables, disabled tables, versions 1-2) is simulated by TLC; "
                       "each behaviour carries its denotation; /verif's codec writes the bytes (delimited, and non-delimited when single-frame); "
                       "the six parse entry points must return exactly that denotation",
    })
