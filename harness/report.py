"""Verdict policy (DESIGN.md section 5): violations, known findings, drift, evidence files."""
from __future__ import annotations

import hashlib
import json
import os
import sys
import time

from . import env

KNOWN_FILE = os.path.join(env.VERIF, "KNOWN_FINDINGS.json")
MAX_PRINT = 12


def load_known() -> list[dict]:
    if not os.path.exists(KNOWN_FILE):
        return []
    with open(KNOWN_FILE) as f:
        return json.load(f).get("findings", [])


def _match(entry: dict, key: dict) -> bool:
    for k, want in entry.get("match", {}).items():
        have = key.get(k, None)
        if isinstance(want, list):
            if have not in want:
                return False
        elif have != want:
            return False
    return True


class Run:
    """One run of one property check."""

    def __init__(self, pid: str, level: str, tier: str | None = None):
        self.pid = pid
        self.level = level
        self.tier = tier or env.tier()
        self.seed = env.seed()
        self.t0 = time.time()
        self.known = [e for e in load_known() if e.get("property") == pid and e.get("status") == "known"]
        self.violations: list[dict] = []
        self.known_hits: dict[str, int] = {}
        self.drift: list[str] = []
        self.notes: list[str] = []
        self.printed = 0
        self.assumptions: list[str] = []

    # ------------------------------------------------------------------
    def violation(self, key: dict, what: str, replay: dict) -> bool:
        """Report a Tier-1 failure on an observation of the real code.

        `key` classifies the failing input / call site / history (matched
        against KNOWN_FINDINGS.json); returns True if it is a new violation.
        """
        for e in self.known:
            if _match(e, key):
                self.known_hits[e["id"]] = self.known_hits.get(e["id"], 0) + 1
                return False
        rec = {"property": self.pid, "what": what, "key": key, "replay": replay}
        blob = json.dumps(rec, sort_keys=True, default=repr)
        h = hashlib.sha1(blob.encode()).hexdigest()[:12]
        d = os.path.join(env.VERIF, "replays", self.pid)
        os.makedirs(d, exist_ok=True)
        path = os.path.join(d, f"{h}.json")
        if len(self.violations) < 200:
            with open(path, "w") as f:
                json.dump(rec, f, indent=1, sort_keys=True, default=repr)
        self.violations.append({"what": what, "key": key, "path": path})
        if self.printed < MAX_PRINT:
            print(f"VIOLATION property={self.pid} replay={path}", flush=True)
            print(f"  what: {what}", flush=True)
            print(f"  key:  {json.dumps(key, sort_keys=True, default=repr)}", flush=True)
            self.printed += 1
        return True

    def model_drift(self, what: str) -> None:
        if len(self.drift) < 50:
            self.drift.append(what)
        if len(self.drift) <= 5:
            print(f"MODEL-DRIFT property={self.pid} {what}", flush=True)

    def note(self, s: str) -> None:
        self.notes.append(s)
        print(f"  note: {s}", flush=True)

    # ------------------------------------------------------------------
    def finish(self, coverage: dict) -> int:
        for e in self.known:
            n = self.known_hits.get(e["id"], 0)
            if n:
                print(f"KNOWN-FINDING: property={self.pid} {e['what']} [{e['id']}; {n} occurrences this run]", flush=True)
        wall = time.time() - self.t0
        cov = dict(coverage)
        cov.setdefault("known_finding_hits", dict(self.known_hits))
        cov.setdefault("model_drift", len(self.drift))
        if self.drift:
            cov.setdefault("model_drift_examples", self.drift[:5])
        if self.notes:
            cov.setdefault("notes", self.notes[:20])
        ev = {
            "property_id": self.pid,
            "tier": self.tier,
            "seed": self.seed,
            "level": self.level,
            "coverage": cov,
            "assumptions": self.assumptions,
            "wall_s": round(wall, 2),
            "violations": len(self.violations),
        }
        os.makedirs(os.path.join(env.VERIF, "evidence"), exist_ok=True)
        with open(os.path.join(env.VERIF, "evidence", f"{self.pid}.json"), "w") as f:
            json.dump(ev, f, indent=1, default=repr)
        if self.violations:
            if len(self.violations) > self.printed:
                print(f"  ... {len(self.violations) - self.printed} further violations not printed", flush=True)
            print(f"RESULT property={self.pid} tier={self.tier} VIOLATIONS={len(self.violations)} wall={wall:.1f}s", flush=True)
            return 1
        print(f"RESULT property={self.pid} tier={self.tier} ok wall={wall:.1f}s "
              f"known={sum(self.known_hits.values())} drift={len(self.drift)}", flush=True)
        return 0


def exit_with(code: int) -> None:
    sys.stdout.flush()
    sys.exit(code)
