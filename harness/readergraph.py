"""
State-graph comparison for the reader (DESIGN.md 4.3):

TLC explores JellyProducer exhaustively in a tiny universe (Exhaustive = TRUE: reader counters reset at every row,
so the reachable set is finite) and prints EVERY transition (reader state, row, reader state', denoted item) and, for
every reachable reader state, every catalogued illegal next row.  The harness walks that graph breadth first carrying
a real pyjelly Decoder (deep-copied at branch points): one test per transition of the model, on the real object.
"""
from __future__ import annotations

import copy
import json

from . import env, producer, terms, tlc, wire
from .writer import cfg_text

env.import_pyjelly()

RDF_STAR = {"triples-star-s", "triples-star-o"}        # universes only the generic adapters can decode

UNIVERSES = {
    "triples-star-s": dict(PType=1, MaxN=8, MaxP=0, MaxD=0, Ver=1, IdsN="Ids1", IdsP="NoIds", IdsD="NoIds", StrN="SNx", StrP="NoStr", StrD="NoStr",
                           Bnodes="BN1", Lexes="LX1", Langs="NoLangs", NsNames="NoStr", AllowGen=False, AllowStar=True, KindsOverride="StarKindsS"),
    "triples-star-o": dict(PType=1, MaxN=8, MaxP=0, MaxD=0, Ver=1, IdsN="Ids1", IdsP="NoIds", IdsD="NoIds", StrN="SNx", StrP="NoStr", StrD="NoStr",
                           Bnodes="BN1", Lexes="LX1", Langs="NoLangs", NsNames="NoStr", AllowGen=False, AllowStar=True, KindsOverride="StarKindsO"),
    # name: constants.  Ids contiguous from 1 so that the projection prints as arrays.
    "triples-names": dict(PType=1, MaxN=8, MaxP=0, MaxD=0, Ver=1, IdsN="Ids2", IdsP="NoIds", IdsD="NoIds", StrN="SN2", StrP="NoStr", StrD="NoStr",
                          Bnodes="BN1", Lexes="NoStr", Langs="NoLangs", NsNames="NoStr", AllowGen=False, AllowStar=False, KindsOverride="TinyKinds"),
    "quads-prefix": dict(PType=2, MaxN=8, MaxP=1, MaxD=0, Ver=1, IdsN="Ids1", IdsP="Ids1", IdsD="NoIds", StrN="SN2", StrP="SP1", StrD="NoStr",
                         Bnodes="BN1", Lexes="NoStr", Langs="NoLangs", NsNames="NoStr", AllowGen=False, AllowStar=False, KindsOverride="TinyKinds"),
    "graphs-datatype": dict(PType=3, MaxN=8, MaxP=0, MaxD=1, Ver=2, IdsN="Ids1", IdsP="NoIds", IdsD="Ids1", StrN="SN2", StrP="NoStr", StrD="SD1",
                            Bnodes="BN1", Lexes="LX1", Langs="NoLangs", NsNames="NS1", AllowGen=False, AllowStar=False, KindsOverride="TinyKindsO"),
}


def explore(name: str, faults="BodyFaults", timeout=900):
    c = producer.consts(**UNIVERSES[name], Faults=faults, FaultAt=0, Exhaustive=True, HistLen=0)
    r = tlc.run("MCProducer", cfg_text(c, ("Legal", "PrintFaults")), workers=1, timeout=timeout, heap="6g")
    if r.violated or not r.ok:
        env.machinery_failure(f"reader graph {name}: {r.violated or r.errors[:2]}\n" + "\n".join(l[:300] for l in r.out.splitlines()[-10:]))
    edges: dict = {}
    faults_at: dict = {}
    for p in r.printed("TR"):
        d = json.loads(p)
        k = canon(d["from"])
        edges.setdefault(k, {})[json.dumps(d["row"], sort_keys=True)] = (canon(d["to"]), d["item"])
    for p in r.printed("FR"):
        d = json.loads(p)
        faults_at.setdefault(canon(d["from"]), {})[json.dumps(d["row"], sort_keys=True)] = (d["class"], d["clause"])
    return edges, faults_at, r


def _norm(x):
    if isinstance(x, dict):
        if not x:
            return []
        return {k: _norm(v) for k, v in x.items()}
    if isinstance(x, list):
        return [_norm(v) for v in x]
    return x


def canon(key) -> str:
    return json.dumps(_norm(key), sort_keys=True)


SLOT = {"subject": "s", "predicate": "p", "object": "o", "graph": "g"}


def make_decoder(opt_row: dict, integ: str = "generic"):
    from pyjelly import jelly  # noqa: PLC0415
    from pyjelly.parse.decode import Decoder, options_from_frame  # noqa: PLC0415

    frame = jelly.RdfStreamFrame.FromString(wire.enc_frame({"rows": [opt_row]}))
    options = options_from_frame(frame, delimited=True)
    pt = opt_row["pt"]
    if integ == "rdflib":
        from pyjelly.integrations.rdflib import parse as rp  # noqa: PLC0415

        adapter = (rp.RDFLibTriplesAdapter(options) if pt == 1 else rp.RDFLibQuadsAdapter(options) if pt == 2 else rp.RDFLibGraphsAdapter(options))
    else:
        from pyjelly.integrations.generic import parse as gp  # noqa: PLC0415

        adapter = (gp.GenericTriplesAdapter(options) if pt == 1 else gp.GenericQuadsAdapter(options) if pt == 2 else gp.GenericGraphsAdapter(options))
    return Decoder(adapter=adapter)


def apply_row(dec, row: dict):
    from pyjelly import jelly  # noqa: PLC0415

    if row["r"] == "cut":
        return None
    owner = jelly.RdfStreamRow.FromString(wire.enc_row(row))
    msg = getattr(owner, owner.WhichOneof("row"))
    return dec.decode_row(msg)


def project(dec, ids, integ: str = "generic") -> dict:
    def tab(t, n):
        return [([t.data[i]] if i < len(t.data) and t.data[i] is not None else []) for i in range(n)]

    def conv(v, graph_position=False):
        return terms.from_generic(v) if integ == "generic" else terms.from_rdflib(v, graph_position=graph_position)

    prev = {}
    for k, v in dec.repeated_terms.items():
        prev[SLOT[k]] = terms.jterm(terms.norm_term(conv(v, SLOT[k] == "g")))
    gid = getattr(dec.adapter, "_graph_id", None)
    return {"names": tab(dec.names, ids[0]), "pfx": tab(dec.prefixes, ids[1]), "dts": tab(dec.datatypes, ids[2]),
            "lna": dec.names.last_assigned_index, "lpa": dec.prefixes.last_assigned_index, "lda": dec.datatypes.last_assigned_index,
            "lnu": dec.names.last_reused_index, "lpu": dec.prefixes.last_reused_index,
            "prev": prev, "gopen": gid is not None,
            "g": [terms.jterm(terms.norm_term(conv(gid, True)))] if gid is not None else []}


def walk(name: str, edges, faults_at, *, on_violation, on_drift, max_edges=10**9, integ="generic"):
    """BFS over the model graph with a real Decoder. Returns counters."""
    u = UNIVERSES[name]
    nid = {"Ids2": 2, "Ids1": 1, "NoIds": 0}
    ids = (nid[u["IdsN"]], nid[u["IdsP"]], nid[u["IdsD"]])
    init_keys = [k for k, out in edges.items() if any(json.loads(r)["r"] == "opt" and json.loads(k)["lna"] == 0 for r in out)]
    # the initial model state is the one whose only predecessor-free edge is the options row
    start = None
    for k, out in edges.items():
        kk = json.loads(k)
        if kk["lna"] == 0 and kk["lnu"] == 0 and not kk["prev"] and all(not x for x in kk["names"]) and any(json.loads(r)["r"] == "opt" for r in out):
            # RdInit (not seen) and the state after options look alike in the projection; the very first Options edge leads to the post-options state
            start = k
            break
    if start is None:
        env.machinery_failure(f"reader graph {name}: no initial state found")
    opt_row = next(json.loads(r) for r in edges[start] if json.loads(r)["r"] == "opt")
    dec0 = make_decoder(opt_row, integ)
    item_of = terms.item_from_generic if integ == "generic" else terms.item_from_rdflib
    seen = {start}
    queue = [(start, dec0)]
    n_edges = n_faults = 0
    while queue and n_edges < max_edges:
        nxt = []
        for key, dec in queue:
            for row_s, (to_key, item) in edges.get(key, {}).items():
                row = json.loads(row_s)
                n_edges += 1
                d2 = copy.deepcopy(dec)
                try:
                    got = apply_row(d2, row)
                except Exception as ex:  # noqa: BLE001
                    on_violation("valid-row-rejected", f"reader state reached by a valid stream, valid next row {row}: {type(ex).__name__}: {ex}",
                                 {"universe": name, "integ": integ, "state": json.loads(key), "row": row})
                    continue
                if item:
                    want = _norm(item[0])
                    have = terms.jitem(terms.norm_item(item_of(got))) if got is not None else None
                    if have != want:
                        on_violation("denotation-differs", f"row {row}: denotes {want}, decoder returned {have}",
                                     {"universe": name, "integ": integ, "state": json.loads(key), "row": row})
                        continue
                real_key = canon(project(d2, ids, integ))
                if real_key != to_key:
                    on_drift(f"{name}: after row {row} the real Decoder's projected state differs from JellyReader's")
                if to_key not in seen:
                    seen.add(to_key)
                    nxt.append((to_key, d2))
            for row_s, (cls, clause) in faults_at.get(key, {}).items():
                row = json.loads(row_s)
                n_faults += 1
                d2 = copy.deepcopy(dec)
                try:
                    got = apply_row(d2, row)
                except Exception:  # noqa: BLE001
                    continue
                on_violation("invalid-row-accepted", f"{cls} ({clause}): row {row} accepted in a reachable reader state; delivered {got!r}",
                             {"universe": name, "integ": integ, "state": json.loads(key), "row": row, "class": cls})
        queue = nxt
    return {"states_walked": len(seen), "model_states_with_edges": len(edges), "edges_replayed": n_edges, "fault_rows_replayed": n_faults}
