"""
Abstract RDF terms and the projections between them and
  * the generic integration's classes,
  * rdflib's classes,
  * the JSON handed to TLC (strings escaped, integers clamped).

Abstract terms are hashable tuples:
  ("iri", v) ("bn", v) ("lit", lex, lang, dt) ("dg",) ("qt", s, p, o)
with "" for an absent language tag / datatype.  A statement is a 3- or
4-tuple of abstract terms; a namespace declaration is ("ns", name, iri).
"""
from __future__ import annotations

XSD_STRING = "http://www.w3.org/2001/XMLSchema#string"
CLAMP = 1_000_000

_SAFE = set("ABCDEFGHIJKLMNOPQRSTUVWXYZabcdefghijklmnopqrstuvwxyz0123456789._:/#-")


def esc(s: str) -> str:
    """Injective, concatenation-homomorphic ASCII escaping (TLC's JSON reader mangles non-ASCII)."""
    if all(c in _SAFE for c in s):
        return s
    return "".join(c if c in _SAFE else f"~{ord(c):X};" for c in s)


def clamp(n: int) -> int:
    return n if n < CLAMP else CLAMP


# ----------------------------------------------------------------------------
# abstract -> JSON for TLC (denoted-term shape of JellyReader)


def norm_term(t):
    """xsd:string typed literal == plain literal."""
    if t[0] == "lit" and t[3] == XSD_STRING:
        return ("lit", t[1], t[2], "")
    if t[0] == "qt":
        return ("qt", norm_term(t[1]), norm_term(t[2]), norm_term(t[3]))
    return t


def norm_item(it):
    if it and it[0] == "ns":
        return it
    return tuple(norm_term(t) for t in it)


def jterm(t) -> dict:
    k = t[0]
    if k in ("iri", "bn"):
        return {"k": k, "v": esc(t[1])}
    if k == "lit":
        dt = "" if t[3] == XSD_STRING else t[3]
        return {"k": "lit", "lex": esc(t[1]), "lang": esc(t[2]), "dt": esc(dt)}
    if k == "dg":
        return {"k": "dg"}
    if k == "qt":
        return {"k": "qt", "s": jterm(t[1]), "p": jterm(t[2]), "o": jterm(t[3])}
    if k == "alien":           # an object of a foreign type came out of the code under test: comparable (and never equal to a real term), not a crash
        return {"k": "alien", "v": esc(str(t[1]))}
    raise ValueError(f"bad abstract term {t!r}")


def jitem(it) -> dict:
    if it and it[0] == "ns":
        return {"ns": esc(it[1]), "iri": esc(it[2])}
    d = {"s": jterm(it[0]), "p": jterm(it[1]), "o": jterm(it[2])}
    if len(it) == 4:
        d["g"] = jterm(it[3])
    return d


# ----------------------------------------------------------------------------
# wire rows -> JSON for TLC


def _jwterm(t: dict) -> dict:
    k = t["t"]
    if k == "iri":
        return {"t": "iri", "p": clamp(t["p"]), "n": clamp(t["n"])}
    if k == "bn":
        return {"t": "bn", "v": esc(t["v"])}
    if k == "dg":
        return {"t": "dg"}
    if k == "lit":
        d = {"t": "lit", "lex": esc(t["lex"])}
        if "lang" in t:
            d["lang"] = esc(t["lang"])
        if "dt" in t:
            d["dt"] = clamp(t["dt"])
        return d
    if k == "qt":
        d = {"t": "qt"}
        for sl in "spo":
            if sl in t:
                d[sl] = _jwterm(t[sl])
        return d
    raise ValueError(k)


def jrow(r: dict) -> dict:
    k = r["r"]
    if k == "opt":
        return {"r": "opt", "name": esc(r["name"]), "pt": clamp(r["pt"]), "gen": bool(r["gen"]),
                "star": bool(r["star"]), "mn": clamp(r["mn"]), "mp": clamp(r["mp"]),
                "md": clamp(r["md"]), "lt": clamp(r["lt"]), "ver": clamp(r["ver"])}
    if k in ("name", "pfx", "dt"):
        return {"r": k, "id": clamp(r["id"]), "v": esc(r["v"])}
    if k in ("triple", "quad", "gs"):
        d = {"r": k}
        for sl in "spog":
            if sl in r:
                d[sl] = _jwterm(r[sl])
        return d
    if k == "ns":
        d = {"r": "ns", "name": esc(r["name"])}
        if "iri" in r:
            d["iri"] = _jwterm(r["iri"])
        return d
    return {"r": k}


def jrows_of_frames(frames) -> list[dict]:
    """Rows with explicit frame-cut markers (R7: the reader must ignore them)."""
    out = []
    for i, fr in enumerate(frames):
        if i:
            out.append({"r": "cut"})
        out.extend(jrow(r) for r in fr["rows"])
    return out


# ----------------------------------------------------------------------------
# generic integration <-> abstract


def generic_classes():
    from pyjelly.integrations.generic import generic_sink as gs  # noqa: PLC0415

    return gs


def to_generic(t):
    gs = generic_classes()
    k = t[0]
    if k == "iri":
        return gs.IRI(t[1])
    if k == "bn":
        return gs.BlankNode(t[1])
    if k == "lit":
        return gs.Literal(t[1], t[2] or None, t[3] or None)
    if k == "dg":
        return gs.DefaultGraph
    if k == "qt":
        return gs.Triple(to_generic(t[1]), to_generic(t[2]), to_generic(t[3]))
    raise ValueError(t)


def stmt_to_generic(st):
    gs = generic_classes()
    terms = [to_generic(t) for t in st]
    return gs.Triple(*terms) if len(terms) == 3 else gs.Quad(*terms)


def from_generic(o):
    gs = generic_classes()
    if isinstance(o, gs.IRI):
        return ("iri", _plain(o._iri))
    if isinstance(o, gs.BlankNode):
        return ("bn", _plain(o._identifier))
    if isinstance(o, gs.Literal):
        return ("lit", _plain(o._lex), _plain(o._langtag or ""), _plain(o._datatype or ""))
    if o is gs.DefaultGraph or isinstance(o, type(gs.DefaultGraph)):     # (a deep copy of the singleton is still the default graph)
        return ("dg",)
    if isinstance(o, gs.Triple):
        return ("qt", from_generic(o.s), from_generic(o.p), from_generic(o.o))
    return ("alien", repr(o))


def _plain(s):
    """A str subclass (or worse) smuggled into a term is reported, not hidden."""
    if type(s) is str:
        return s
    if isinstance(s, str):
        return str.__str__(s) if type(s).__str__ is str.__str__ else f"<<{type(s).__name__}:{str.__str__(s)}>>"
    return f"<<{type(s).__name__}:{s!r}>>"


def item_from_generic(o):
    gs = generic_classes()
    if isinstance(o, gs.Prefix):
        iri = o.iri
        return ("ns", _plain(o.prefix), _plain(iri._iri) if isinstance(iri, gs.IRI) else f"<<{type(iri).__name__}:{iri!r}>>")
    if isinstance(o, gs.Quad):
        return tuple(from_generic(t) for t in o)
    if isinstance(o, gs.Triple):
        return tuple(from_generic(t) for t in o)
    return ("alien", repr(o))


# ----------------------------------------------------------------------------
# rdflib <-> abstract


def to_rdflib(t):
    import rdflib  # noqa: PLC0415
    from rdflib.graph import DATASET_DEFAULT_GRAPH_ID  # noqa: PLC0415

    k = t[0]
    if k == "iri":
        return rdflib.URIRef(t[1])
    if k == "bn":
        return rdflib.BNode(t[1])
    if k == "lit":
        return rdflib.Literal(t[1], lang=t[2] or None, datatype=(rdflib.URIRef(t[3]) if t[3] else None))
    if k == "dg":
        return DATASET_DEFAULT_GRAPH_ID
    raise ValueError(f"rdflib cannot carry {t!r}")


def from_rdflib(o, *, graph_position: bool = False):
    import rdflib  # noqa: PLC0415
    from rdflib.graph import DATASET_DEFAULT_GRAPH_ID  # noqa: PLC0415

    if graph_position and o == DATASET_DEFAULT_GRAPH_ID:
        return ("dg",)
    if isinstance(o, rdflib.Graph):
        return from_rdflib(o.identifier, graph_position=True)
    if isinstance(o, rdflib.URIRef):
        return ("iri", str(o))
    if isinstance(o, rdflib.BNode):
        return ("bn", str(o))
    if isinstance(o, rdflib.Literal):
        return ("lit", str(o), o.language or "", str(o.datatype) if o.datatype else "")
    return ("alien", repr(o))


def item_from_rdflib(o):
    from pyjelly.integrations.rdflib import parse as rp  # noqa: PLC0415

    if isinstance(o, rp.Prefix):
        return ("ns", _plain(o.prefix), str(o.iri))
    if len(o) == 4:
        return (from_rdflib(o[0]), from_rdflib(o[1]), from_rdflib(o[2]), from_rdflib(o[3], graph_position=True))
    return tuple(from_rdflib(t) for t in o)
