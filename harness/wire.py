"""
Independent protobuf wire codec for the Jelly RDF stream format.

Shares no code with pyjelly, rdf_pb2 or google.protobuf: varints,
length-delimited fields and the Jelly field numbers as a table.  Rows are
plain dicts (the same shape that is handed to TLC as JSON):

  {"r":"opt","name":str,"pt":int,"gen":bool,"star":bool,"mn":int,"mp":int,"md":int,"lt":int,"ver":int}
  {"r":"pfx"|"name"|"dt","id":int,"v":str}
  {"r":"triple", "s":T?, "p":T?, "o":T?}            absent key = term elided on the wire
  {"r":"quad",   "s":T?, "p":T?, "o":T?, "g":T?}
  {"r":"gs", "g":T?}   {"r":"ge"}
  {"r":"ns","name":str,"iri":{"t":"iri","p":int,"n":int}}   ("iri" absent if no value field)
  T = {"t":"iri","p":int,"n":int} | {"t":"bn","v":str}
    | {"t":"lit","lex":str,"lang":str?,"dt":int?}   (oneof literalKind: presence from the wire)
    | {"t":"dg"} | {"t":"qt","s":T?,"p":T?,"o":T?}

A frame is {"rows":[...], "meta":{str:bytes}}.
"""
from __future__ import annotations

# ----------------------------------------------------------------------------
# primitives


class WireError(Exception):
    pass


def enc_varint(n: int) -> bytes:
    if n < 0:
        n &= (1 << 64) - 1
    out = bytearray()
    while True:
        b = n & 0x7F
        n >>= 7
        if n:
            out.append(b | 0x80)
        else:
            out.append(b)
            return bytes(out)


def dec_varint(buf: bytes, pos: int) -> tuple[int, int]:
    shift = 0
    result = 0
    while True:
        if pos >= len(buf):
            raise WireError("truncated varint")
        b = buf[pos]
        pos += 1
        result |= (b & 0x7F) << shift
        if not b & 0x80:
            return result & ((1 << 64) - 1), pos
        shift += 7
        if shift > 63:
            raise WireError("varint too long")


def _tag(field: int, wt: int) -> bytes:
    return enc_varint((field << 3) | wt)


def _ld(field: int, payload: bytes) -> bytes:
    return _tag(field, 2) + enc_varint(len(payload)) + payload


def _vi(field: int, value: int) -> bytes:
    return _tag(field, 0) + enc_varint(value)


def _fields(buf: bytes):
    """Yield (field_number, wire_type, value) for a message body."""
    pos = 0
    n = len(buf)
    while pos < n:
        key, pos = dec_varint(buf, pos)
        field, wt = key >> 3, key & 7
        if field == 0:
            raise WireError("field number 0")
        if wt == 0:
            v, pos = dec_varint(buf, pos)
        elif wt == 2:
            ln, pos = dec_varint(buf, pos)
            if pos + ln > n:
                raise WireError("truncated length-delimited field")
            v = buf[pos : pos + ln]
            pos += ln
        elif wt == 1:
            if pos + 8 > n:
                raise WireError("truncated fixed64")
            v = buf[pos : pos + 8]
            pos += 8
        elif wt == 5:
            if pos + 4 > n:
                raise WireError("truncated fixed32")
            v = buf[pos : pos + 4]
            pos += 4
        else:
            raise WireError(f"unsupported wire type {wt}")
        yield field, wt, v


def _s(b: bytes) -> str:
    return b.decode("utf-8")


# ----------------------------------------------------------------------------
# terms

_SLOT_BASE = {"s": 0, "p": 4, "o": 8, "g": 12}
# within spo: +1 iri, +2 bnode, +3 literal, +4 triple_term
# graph in quad: 13 iri, 14 bnode, 15 default graph, 16 literal
# graph in graph_start: 1 iri, 2 bnode, 3 default graph, 4 literal


def enc_iri(t: dict) -> bytes:
    out = b""
    if t.get("p", 0):
        out += _vi(1, t["p"])
    if t.get("n", 0):
        out += _vi(2, t["n"])
    return out


def dec_iri(buf: bytes) -> dict:
    t = {"t": "iri", "p": 0, "n": 0}
    for f, wt, v in _fields(buf):
        if f == 1 and wt == 0:
            t["p"] = v & 0xFFFFFFFF
        elif f == 2 and wt == 0:
            t["n"] = v & 0xFFFFFFFF
    return t


def enc_literal(t: dict) -> bytes:
    out = b""
    if t.get("lex", ""):
        out += _ld(1, t["lex"].encode("utf-8"))
    if "lang" in t:
        out += _ld(2, t["lang"].encode("utf-8"))
    if "dt" in t:
        out += _vi(3, t["dt"])
    return out


def dec_literal(buf: bytes) -> dict:
    t: dict = {"t": "lit", "lex": ""}
    for f, wt, v in _fields(buf):
        if f == 1 and wt == 2:
            t["lex"] = _s(v)
        elif f == 2 and wt == 2:
            t.pop("dt", None)
            t["lang"] = _s(v)
        elif f == 3 and wt == 0:
            t.pop("lang", None)
            t["dt"] = v & 0xFFFFFFFF
    return t


def _enc_spo_term(slot: str, t: dict) -> bytes:
    base = _SLOT_BASE[slot]
    k = t["t"]
    if k == "iri":
        return _ld(base + 1, enc_iri(t))
    if k == "bn":
        return _ld(base + 2, t["v"].encode("utf-8"))
    if k == "lit":
        return _ld(base + 3, enc_literal(t))
    if k == "qt":
        return _ld(base + 4, enc_triple(t))
    raise WireError(f"term kind {k!r} not allowed in slot {slot}")


def _enc_graph_term(t: dict, *, quad: bool) -> bytes:
    base = 12 if quad else 0
    k = t["t"]
    if k == "iri":
        return _ld(base + 1, enc_iri(t))
    if k == "bn":
        return _ld(base + 2, t["v"].encode("utf-8"))
    if k == "dg":
        return _ld(base + 3, b"")
    if k == "lit":
        return _ld(base + 4, enc_literal(t))
    raise WireError(f"term kind {k!r} not allowed as graph")


def enc_triple(row: dict) -> bytes:
    out = b""
    for slot in ("s", "p", "o"):
        if slot in row:
            out += _enc_spo_term(slot, row[slot])
    return out


def enc_quad(row: dict) -> bytes:
    out = enc_triple(row)
    if "g" in row:
        out += _enc_graph_term(row["g"], quad=True)
    return out


def _dec_statement(buf: bytes, *, quad: bool) -> dict:
    row: dict = {}
    for f, wt, v in _fields(buf):
        if wt != 2:
            continue
        if 1 <= f <= 12:
            slot = "spo"[(f - 1) // 4]
            kind = (f - 1) % 4
            if kind == 0:
                row[slot] = dec_iri(v)
            elif kind == 1:
                row[slot] = {"t": "bn", "v": _s(v)}
            elif kind == 2:
                row[slot] = dec_literal(v)
            else:
                q = _dec_statement(v, quad=False)
                q["t"] = "qt"
                row[slot] = q
        elif quad and 13 <= f <= 16:
            row["g"] = _dec_graph_term(f - 12, v)
    return row


def _dec_graph_term(kind: int, v: bytes) -> dict:
    if kind == 1:
        return dec_iri(v)
    if kind == 2:
        return {"t": "bn", "v": _s(v)}
    if kind == 3:
        return {"t": "dg"}
    return dec_literal(v)


# ----------------------------------------------------------------------------
# rows


def enc_options(r: dict) -> bytes:
    out = b""
    if r.get("name", ""):
        out += _ld(1, r["name"].encode("utf-8"))
    if r.get("pt", 0):
        out += _vi(2, r["pt"])
    if r.get("gen", False):
        out += _vi(3, 1)
    if r.get("star", False):
        out += _vi(4, 1)
    if r.get("mn", 0):
        out += _vi(9, r["mn"])
    if r.get("mp", 0):
        out += _vi(10, r["mp"])
    if r.get("md", 0):
        out += _vi(11, r["md"])
    if r.get("lt", 0):
        out += _vi(14, r["lt"])
    if r.get("ver", 0):
        out += _vi(15, r["ver"])
    return out


def dec_options(buf: bytes) -> dict:
    r = {"r": "opt", "name": "", "pt": 0, "gen": False, "star": False,
         "mn": 0, "mp": 0, "md": 0, "lt": 0, "ver": 0}
    for f, wt, v in _fields(buf):
        if f == 1 and wt == 2:
            r["name"] = _s(v)
        elif wt == 0:
            if f == 2:
                r["pt"] = v & 0xFFFFFFFF
            elif f == 3:
                r["gen"] = bool(v)
            elif f == 4:
                r["star"] = bool(v)
            elif f == 9:
                r["mn"] = v & 0xFFFFFFFF
            elif f == 10:
                r["mp"] = v & 0xFFFFFFFF
            elif f == 11:
                r["md"] = v & 0xFFFFFFFF
            elif f == 14:
                r["lt"] = v & 0xFFFFFFFF
            elif f == 15:
                r["ver"] = v & 0xFFFFFFFF
    return r


def _enc_entry(r: dict) -> bytes:
    out = b""
    if r.get("id", 0):
        out += _vi(1, r["id"])
    if r.get("v", ""):
        out += _ld(2, r["v"].encode("utf-8"))
    return out


def _dec_entry(kind: str, buf: bytes) -> dict:
    r = {"r": kind, "id": 0, "v": ""}
    for f, wt, v in _fields(buf):
        if f == 1 and wt == 0:
            r["id"] = v & 0xFFFFFFFF
        elif f == 2 and wt == 2:
            r["v"] = _s(v)
    return r


_ROW_FIELD = {"opt": 1, "triple": 2, "quad": 3, "gs": 4, "ge": 5, "ns": 6,
              "name": 9, "pfx": 10, "dt": 11}
_FIELD_ROW = {v: k for k, v in _ROW_FIELD.items()}


def enc_row(r: dict) -> bytes:
    k = r["r"]
    if k == "opt":
        body = enc_options(r)
    elif k == "triple":
        body = enc_triple(r)
    elif k == "quad":
        body = enc_quad(r)
    elif k == "gs":
        body = _enc_graph_term(r["g"], quad=False) if "g" in r else b""
    elif k == "ge":
        body = b""
    elif k == "ns":
        body = b""
        if r.get("name", ""):
            body += _ld(1, r["name"].encode("utf-8"))
        if "iri" in r:
            body += _ld(2, enc_iri(r["iri"]))
    elif k in ("name", "pfx", "dt"):
        body = _enc_entry(r)
    elif k == "empty":
        return b""  # a row message with no oneof member set
    else:
        raise WireError(f"unknown row kind {k!r}")
    return _ld(_ROW_FIELD[k], body)


def dec_row(buf: bytes) -> dict:
    row: dict = {"r": "empty"}
    for f, wt, v in _fields(buf):
        if wt != 2 or f not in _FIELD_ROW:
            continue
        k = _FIELD_ROW[f]
        if k == "opt":
            row = dec_options(v)
        elif k == "triple":
            row = _dec_statement(v, quad=False)
            row["r"] = "triple"
        elif k == "quad":
            row = _dec_statement(v, quad=True)
            row["r"] = "quad"
        elif k == "gs":
            row = {"r": "gs"}
            for f2, wt2, v2 in _fields(v):
                if wt2 == 2 and 1 <= f2 <= 4:
                    row["g"] = _dec_graph_term(f2, v2)
        elif k == "ge":
            row = {"r": "ge"}
        elif k == "ns":
            row = {"r": "ns", "name": ""}
            for f2, wt2, v2 in _fields(v):
                if f2 == 1 and wt2 == 2:
                    row["name"] = _s(v2)
                elif f2 == 2 and wt2 == 2:
                    row["iri"] = dec_iri(v2)
        else:
            row = _dec_entry(k, v)
    return row


# ----------------------------------------------------------------------------
# frames and streams


def enc_frame(frame: dict) -> bytes:
    out = b""
    for r in frame.get("rows", ()):
        out += _ld(1, enc_row(r))
    for key, val in (frame.get("meta") or {}).items():
        entry = _ld(1, key.encode("utf-8")) + _ld(2, bytes(val))
        out += _ld(15, entry)
    return out


def dec_frame(buf: bytes) -> dict:
    rows = []
    meta: dict = {}
    for f, wt, v in _fields(buf):
        if f == 1 and wt == 2:
            rows.append(dec_row(v))
        elif f == 15 and wt == 2:
            key, val = "", b""
            for f2, wt2, v2 in _fields(v):
                if f2 == 1 and wt2 == 2:
                    key = _s(v2)
                elif f2 == 2 and wt2 == 2:
                    val = bytes(v2)
            meta[key] = val
    return {"rows": rows, "meta": meta}


def enc_delimited(frames) -> bytes:
    out = b""
    for fr in frames:
        body = enc_frame(fr)
        out += enc_varint(len(body)) + body
    return out


def frame_extents(buf: bytes) -> list[tuple[int, int, int]]:
    """[(start_of_length_varint, start_of_payload, end_of_payload)] of a delimited stream."""
    pos = 0
    out = []
    while pos < len(buf):
        start = pos
        ln, pos = dec_varint(buf, pos)
        if pos + ln > len(buf):
            raise WireError("truncated frame")
        out.append((start, pos, pos + ln))
        pos += ln
    return out


def dec_delimited(buf: bytes) -> list[dict]:
    return [dec_frame(buf[a:b]) for _, a, b in frame_extents(buf)]


def dec_stream(buf: bytes, *, delimited: bool) -> list[dict]:
    """Frame boundaries come from the mode the caller KNOWS, never from a detector."""
    if delimited:
        return dec_delimited(buf)
    return [dec_frame(buf)]


def rows_of(frames) -> list[dict]:
    return [r for fr in frames for r in fr["rows"]]
