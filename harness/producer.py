"""
JellyProducer behaviours: legal-but-arbitrary wire streams (and single-fault streams) out of TLC,
turned into bytes by /verif's own codec and fed to the real parsers.
"""
from __future__ import annotations

import json

from . import env, impl, terms, tlc, wire
from .writer import cfg_text

BASE = {"PType": 1, "MaxN": 8, "MaxP": 3, "MaxD": 2, "Ver": 1, "IdsN": "Ids8", "IdsP": "Ids3", "IdsD": "Ids2",
        "StrN": "SN", "StrP": "SP", "StrD": "SD", "Bnodes": "BN", "Lexes": "LX", "Langs": "LG", "NsNames": "NSN",
        "AllowGen": True, "AllowStar": True, "Faults": "NoFaults", "FaultAt": 0, "KindsOverride": "NoOverride", "Exhaustive": False, "HistLen": 30}


def consts(**kw):
    c = dict(BASE)
    c.update(kw)
    return c


# stream shapes: (name, constants)
def configs(rdf11: bool):
    gen = dict(AllowGen=not rdf11, AllowStar=not rdf11, StrN=("SN1" if rdf11 else "SN"))
    out = []
    for pt in (1, 2, 3):
        out.append((f"small-p{pt}-v2", consts(PType=pt, Ver=2, **gen)))
        out.append((f"top-p{pt}-v1", consts(PType=pt, Ver=1, MaxN=4096, MaxP=4096, MaxD=4096, IdsN="IdsTop", IdsP="IdsTop", IdsD="IdsTop", **gen)))
        out.append((f"nopfx-p{pt}-v1", consts(PType=pt, Ver=1, MaxN=9, MaxP=0, MaxD=0, IdsN="IdsNine", IdsP="NoIds", IdsD="NoIds",
                                               StrP="NoStr", StrD="NoStr", **gen)))
    return out


def simulate(c: dict, *, num: int, seed: int, timeout=300, hist_len=None):
    c = dict(c)
    if hist_len:
        c["HistLen"] = hist_len
    r = tlc.run("MCProducer", cfg_text(c, ("Legal", "DenCount", "PrintHist")), workers=1, timeout=timeout,
                args=["-deadlock", "-simulate", f"num={num}", "-depth", str(c["HistLen"] * 14 + 50), "-seed", str(seed)])
    if r.violated:
        env.machinery_failure(f"JellyProducer/JellyReader disagree inside Tier 1: {r.violated}\n" + "\n".join(r.out.splitlines()[-30:]))
    behs = []
    for payload in r.printed("BEHAVIOUR"):
        behs.append(json.loads(payload))
    if not behs and c.get("Faults", "NoFaults") == "NoFaults":
        env.machinery_failure("JellyProducer simulation produced no behaviours:\n" + "\n".join(r.out.splitlines()[-25:]))
    return behs, r


def den_term(d):
    k = d["k"]
    if k in ("iri", "bn"):
        return (k, d["v"])
    if k == "lit":
        return ("lit", d["lex"], d["lang"], d["dt"])
    if k == "dg":
        return ("dg",)
    if k == "qt":
        return ("qt", den_term(d["s"]), den_term(d["p"]), den_term(d["o"]))
    raise ValueError(d)


def den_item(d):
    if "ns" in d:
        return ("ns", d["ns"], d["iri"])
    t = (den_term(d["s"]), den_term(d["p"]), den_term(d["o"]))
    return t + ((den_term(d["g"]),) if "g" in d else ())


def frames_of(rows):
    """Split the behaviour's row list at the cut markers."""
    frames = [{"rows": []}]
    for r in rows:
        if r["r"] == "cut":
            frames.append({"rows": []})
        else:
            frames[-1]["rows"].append(r)
    return frames


def denoting_per_frame(frames):
    return [sum(1 for r in fr["rows"] if r["r"] in ("triple", "quad", "ns")) for fr in frames]


def to_bytes(frames, delimited=True):
    if delimited:
        return wire.enc_delimited(frames)
    assert len(frames) == 1
    return wire.enc_frame(frames[0])
