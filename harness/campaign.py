"""
The writer campaign shared by C01 / C03 / C19 (and reused by C14, C18, C20):

  1. TLC checks the composition PyWriter o JellyReader exhaustively on the slice universes
  2. TLC simulates the bigger universes; every behaviour is replayed op by op into a real
     Stream (model rows vs. real rows = Tier-2 drift), and its statement sequence is also
     pushed through the whole-sequence entry points
  3. every byte string produced is decoded by /verif's own codec and judged by TLC
     (TraceReader, Tier 1) and is parsed back with pyjelly's own parsers

Each case records what each property needs; the property drivers pick their clauses.
"""
from __future__ import annotations

import random
import time
from concurrent.futures import ThreadPoolExecutor

from . import env, impl, terms, tlc, universes as U, wire, writer


class Case:
    __slots__ = ("key", "items", "data", "delimited", "exc", "frames", "verdict", "back", "drift", "replay", "mode")

    def __init__(self, key, items, mode="seq"):
        self.key = key          # classification: universe, entry, substitution, config
        self.items = items      # abstract items submitted (statements / namespace declarations), in order
        self.mode = mode
        self.data = None        # bytes written
        self.delimited = True
        self.exc = None         # exception raised by the serializer, if any
        self.frames = None      # decoded by wire.py
        self.verdict = None     # TLC verdict dict
        self.back = {}          # parse entry -> items or "EXC:<name>"
        self.drift = None
        self.replay = {}


def run_slices(slices: dict, inv=U.INV, *, workers_each=4, parallel=4, timeout=900, coverage=False):
    def go(k):
        return k, writer.model_check(slices[k], inv, timeout=timeout, workers=workers_each, coverage=coverage)

    with ThreadPoolExecutor(parallel) as ex:
        return dict(ex.map(go, list(slices)))


def _safe_parse(integ, data, entry, **kw):
    try:
        return impl.parse(integ, data, entry, **kw)
    except Exception as ex:  # noqa: BLE001
        return f"EXC:{type(ex).__name__}:{str(ex)[:100]}"


def whole_sequence_variants(ptype: int, rnd: random.Random, preset, nsdecl: bool):
    """Serializer configurations for pushing a whole statement sequence through the generic entry points."""
    sclass = {1: "triple", 2: "quad", 3: "graph"}[ptype]
    lt = 1 if ptype == 1 else 2
    fs = rnd.choice([1, 2, 3, 5, 250])
    base = dict(integ="generic", sclass=sclass, ltype=lt, preset=preset, nsdecl=nsdecl, gen=True, star=True)
    out = [
        impl.default_cfg(**base, entry="stream_frames", delimited=True, frame_size=fs, as_sink=False),
        impl.default_cfg(**base, entry="stream_frames", delimited=False, frame_size=fs, as_sink=True),
    ]
    if ptype != 3:
        out.append(impl.default_cfg(**base, entry="flat_to_file", delimited=True, frame_size=rnd.choice([1, 2, 4, 250])))
        out.append(impl.default_cfg(**base, entry="grouped_to_file", delimited=True, frame_size=rnd.choice([1, 3, 250])))
        out.append(impl.default_cfg(**dict(base, preset=(4000, 150, 32)), entry="sink_serialize"))
    return out


def writer_campaign(tier: str, seed: int, *, sims=None, n_beh=None, hist_len=None, subs_per_beh=1, judge=True,
                    parse_entries=("flat",), whole=True, rdflib_share=False):
    """rdflib_share: every second behaviour of the RDF 1.1 universes is replayed through the rdflib term encoder (properties that cover both integrations)."""
    rnd = random.Random(seed)
    sims = sims or list(U.SIM)
    n_beh = n_beh or (40 if tier == "quick" else 400)
    hist_len = hist_len or (24 if tier == "quick" else 40)
    subs = writer.substitutions(seed)
    cases: list[Case] = []
    sim_stats = {}

    def sim(k):
        return k, writer.simulate(U.SIM[k], num=n_beh, hist_len=hist_len, seed=seed + 1 + list(U.SIM).index(k))

    with ThreadPoolExecutor(8) as ex:
        sim_out = dict(ex.map(sim, sims))

    for uni in sims:
        behs, r = sim_out[uni]
        c = U.SIM[uni]
        sim_stats[uni] = {"behaviours": len(behs), "generated": r.generated, "wall": round(r.wall, 1)}
        preset = (c["MaxN"], c["MaxP"], c["MaxD"])
        for bi, beh in enumerate(behs):
            if beh["bad"]:
                env.machinery_failure(f"model {uni}: composite clause {beh['bad']} failed inside a simulated behaviour")
            for si in range(subs_per_beh):
                sub = subs[(bi + si) % len(subs)]
                delim = (bi % 4 != 3) or c["PType"] == 3 or bool(c["FrameSize"])
                integ = "rdflib" if (rdflib_share and uni.startswith("r11") and bi % 2) else "generic"
                res = writer.replay_stepwise(beh, c, sub, delimited=delim, integ=integ,
                                             frame_size=(None if bi % 3 else rnd.choice([1, 2, 3, 7])))
                case = Case({"universe": uni, "entry": "stepwise", "sub": sub.label, "delimited": delim, "beh": bi, **({"integ": "rdflib"} if integ == "rdflib" else {})},
                            res["accepted"])
                case.data, case.delimited = res["bytes"], delim
                d = writer.compare_rows(beh, res["per_op"], sub, U.PFX_ATOMS)
                if d:
                    case.drift = {"op": d[0], "model": d[1], "real": d[2]}
                if res["rejected"]:
                    case.exc = str(res["rejected"])
                case.replay = {"behaviour": beh["hist"], "consts": c, "sub": sub.label}
                cases.append(case)
            if whole:
                sub = subs[bi % len(subs)]
                stmts, nss = [], []
                g = None
                for op in beh["hist"]:
                    if op["op"] == "gs":
                        g = writer.abs_term(op["g"], sub)
                    elif op["op"] == "stmt":
                        st = tuple(writer.abs_term(t, sub) for t in op["st"])
                        stmts.append(st + ((g,) if c["PType"] == 3 else ()))
                    elif op["op"] == "ns":
                        nss.append((sub.o(op["ns"][0]), sub.iri(op["ns"][1], op["ns"][2])))
                if not stmts:
                    continue
                # namespace declarations made through sink.bind() are C14's subject, not this campaign's
                variants = whole_sequence_variants(c["PType"], rnd, preset, False)
                cfg = variants[bi % len(variants)]
                ns_unique = []
                items = list(stmts)
                case = Case({"universe": uni, "entry": cfg["entry"], "sub": sub.label, "delimited": cfg["delimited"],
                             "frame_size": cfg["frame_size"], "as_sink": cfg.get("as_sink", True), "beh": bi}, items)
                case.delimited = cfg["delimited"] if cfg["entry"] == "stream_frames" else True
                if cfg["entry"] == "grouped_to_file" and len(stmts) >= 3:
                    # several sinks through ONE stream: lookup tables and repeated terms carry over from sink to sink
                    k1, k2 = len(stmts) // 3, 2 * len(stmts) // 3
                    cfg = dict(cfg, groups=[stmts[:k1], stmts[k1:k2], stmts[k2:]])
                try:
                    case.data = impl.serialize(cfg, stmts, ns_unique)
                except Exception as ex:  # noqa: BLE001
                    case.exc = f"{type(ex).__name__}: {ex}"
                case.replay = {"cfg": {k: v for k, v in cfg.items() if k != "groups"}, "statements": stmts, "namespaces": ns_unique, "sinks": 3 if "groups" in cfg else 1}
                cases.append(case)

    # long deterministic workloads that wrap tables of 128 / 256 / 4096 entries (ids crossing the one-byte varint limit and the 4096 cap)
    def workload(n_names, n_pfx, n_dt, n, quads):
        out = []
        for i in range(n):
            st = (("iri", f"http://p{i % n_pfx}.example/ns/n{i % n_names}"), ("iri", f"http://p{(i * 7) % n_pfx}.example/ns/n{(i * 3 + 1) % n_names}"),
                  (("lit", str(i % 5), "", f"http://dt.example/t{i % n_dt}") if i % 3 == 0 else ("iri", f"http://p{(i + 1) % n_pfx}.example/ns/n{(i * 5 + 2) % n_names}")))
            out.append(st + (((("iri", f"http://g.example/{i % 3}") if i % 4 else ("dg",)),) if quads else ()))
        return out

    big = [((128, 16, 4), 140, 20, 6, 600), ((256, 128, 32), 300, 140, 40, 900), ((4096, 150, 32), 4300, 170, 40, 4600)]
    if tier == "thorough":
        big += [((129, 127, 128), 200, 130, 140, 900), ((4095, 4096, 4096), 4200, 300, 50, 4500)]
    for bi_, (preset_, nn, npf, nd, n_) in enumerate(big):
        for quads in (False, True):
            stmts = workload(nn, npf, nd, n_, quads)
            cfg = impl.default_cfg(integ="generic", entry="flat_to_file", sclass=("quad" if quads else "triple"), ltype=(2 if quads else 1),
                                   frame_size=(250 if bi_ % 2 == 0 else 37), preset=preset_, gen=False, star=False)
            case = Case({"universe": f"long-{preset_[0]}-{preset_[1]}-{preset_[2]}", "entry": "flat_to_file", "sub": "none", "delimited": True,
                         "frame_size": cfg["frame_size"], "as_sink": False, "beh": bi_}, stmts)
            try:
                case.data = impl.serialize(cfg, stmts)
            except Exception as ex:  # noqa: BLE001
                case.exc = f"{type(ex).__name__}: {ex}"
            case.replay = {"cfg": cfg, "workload": {"names": nn, "prefixes": npf, "datatypes": nd, "statements": n_, "quads": quads}}
            cases.append(case)

    # decode with our own codec, judge with TLC, parse back with pyjelly
    traces = []
    for i, case in enumerate(cases):
        if case.data is None:
            continue
        try:
            case.frames = wire.dec_stream(case.data, delimited=case.delimited) if case.data else []
        except wire.WireError as ex:
            case.frames = None
            case.verdict = {"verdict": f"W-wire-undecodable:{ex}", "at": 0, "n": 0, "aud": {}}
            continue
        if judge and case.frames:
            traces.append({"id": i, "rows": terms.jrows_of_frames(case.frames), "mode": case.mode,
                           "exp": [terms.jitem(terms.norm_item(it)) for it in case.items]})
        for pe in parse_entries:
            case.back[pe] = _safe_parse("generic", case.data, pe) if case.data else []
    jstats = {}
    if traces:
        t0 = time.time()
        verdicts = tlc.judge(traces)
        jstats = verdicts.pop("__stats__")
        jstats["judge_wall"] = round(time.time() - t0, 1)
        for i, v in verdicts.items():
            cases[i].verdict = v
    return cases, {"sim": sim_stats, "judge": jstats}


def empty_sequence_cases(integ: str, judge=True):
    """The empty statement sequence through every entry point of one integration: the bytes written must be a valid stream that denotes nothing
    and parse back to nothing."""
    variants = []
    for sclass, lt in (("triple", 1), ("quad", 2), ("graph", 2)):
        for delimited in (True, False):
            for as_sink in (True, False):
                if sclass == "graph" and not as_sink and integ == "generic":
                    pass
                variants.append(dict(entry="stream_frames", sclass=sclass, ltype=lt, delimited=delimited, as_sink=as_sink))
        if sclass != "graph":
            for guess in (False, True):
                variants.append(dict(entry="flat_to_file", sclass=sclass, ltype=lt, guess=guess))
                variants.append(dict(entry="grouped_to_file", sclass=sclass, ltype=(3 if sclass == "triple" else 4), guess=guess))
            variants.append(dict(entry=("sink_serialize" if integ == "generic" else "graph_serialize"), sclass=sclass, ltype=lt, guess=True))
    cases, traces = [], []
    for v in variants:
        cfg = impl.default_cfg(integ=integ, gen=False, star=False, dataset=(v["sclass"] != "triple"), **v)
        case = Case({"universe": "empty-sequence", "integ": integ, "entry": v["entry"], "sclass": v["sclass"], "guess": bool(v.get("guess")),
                     "delimited": v.get("delimited", True), "as_sink": v.get("as_sink", True)}, [])
        case.delimited = v.get("delimited", True)
        case.replay = {"cfg": cfg, "statements": []}
        try:
            case.data = impl.serialize(cfg, [])
        except Exception as ex:  # noqa: BLE001
            case.exc = f"{type(ex).__name__}: {ex}"
            cases.append(case)
            continue
        try:
            case.frames = wire.dec_stream(case.data, delimited=case.delimited) if case.data else []
        except wire.WireError as ex:
            case.frames = None
            case.verdict = {"verdict": f"W-wire-undecodable:{ex}", "at": 0, "n": 0, "aud": {}}
        if case.frames is not None:
            traces.append({"id": len(cases), "rows": terms.jrows_of_frames(case.frames), "mode": "seq", "exp": []})
        case.back["flat"] = _safe_parse(integ, case.data, "flat")
        cases.append(case)
    if judge and traces:
        verdicts = tlc.judge(traces)
        verdicts.pop("__stats__")
        for i, vd in verdicts.items():
            cases[i].verdict = vd
    return cases


def repo_test_traffic(tier: str, max_rows: int):
    """Run the repository's own test suite on a scratch copy of the working tree with the recorder plugin and
    return Cases for every stream pyjelly's serializers wrote (CCF's lesson: the tests drive traffic, their assertions are weak)."""
    import json  # noqa: PLC0415
    import os  # noqa: PLC0415
    import shutil  # noqa: PLC0415
    import subprocess  # noqa: PLC0415
    import sys  # noqa: PLC0415

    scratch = os.path.join(env.workdir(), "repo-copy")
    subprocess.run(["rsync", "-a", "--exclude", ".git", "--exclude", "__pycache__", env.REPO + "/", scratch + "/"], check=True)
    rec = os.path.join(env.workdir(), "recorded.json")
    e = dict(os.environ, PYTHONPATH=f"{scratch}:{env.VERIF}", VERIF_RECORD_FILE=rec)
    e[env.GUARD] = "1"
    p = subprocess.run([sys.executable, "-m", "pytest", "-q", "-p", "no:cacheprovider", "-p", "harness.recorder_plugin", "--timeout=900", "-x", "-q"],
                       cwd=scratch, env=e, capture_output=True, text=True, timeout=1200)
    info = {"pytest_exit": p.returncode, "pytest_tail": p.stdout.strip().splitlines()[-1:] }
    shutil.rmtree(scratch, ignore_errors=True)
    if not os.path.exists(rec):
        env.machinery_failure("recorder plugin wrote nothing:\n" + p.stdout[-800:] + p.stderr[-800:])
    streams = json.load(open(rec))
    os.unlink(rec)
    cases, traces, rows_total = [], [], 0
    for i, st in enumerate(sorted(streams, key=lambda s: sum(len(h) for h in s["frames"]))):
        frames = [wire.dec_frame(bytes.fromhex(h)) for h in st["frames"]]
        rows = terms.jrows_of_frames(frames)
        if rows_total + len(rows) > max_rows:
            keep = max(0, max_rows - rows_total)
            if keep < 50:
                continue
            rows = rows[:keep]
        rows_total += len(rows)
        case = Case({"source": "repository-test-suite", "test": st["test"].split("[")[0], "delimited": st["delimited"]}, [], mode="none")
        case.replay = {"test": st["test"], "frames_hex": st["frames"][:20]}
        case.frames = frames
        cases.append(case)
        traces.append({"id": len(cases) - 1, "rows": rows, "mode": "none", "exp": [], "prefix": True})
    verdicts = tlc.judge(traces) if traces else {"__stats__": {}}
    st_ = verdicts.pop("__stats__")
    for i, v in verdicts.items():
        cases[i].verdict = v
    info.update({"streams_recorded": len(streams), "streams_judged": len(cases), "rows_judged": rows_total, "judge": st_})
    return cases, info
