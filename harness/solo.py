"""Fixed workloads run alone (also as `python -m harness.solo` in a fresh process, for the hash-seed dimension of C12)."""
from __future__ import annotations

import hashlib
import io
import json
import sys

from . import impl, terms

I = lambda s: ("iri", s)  # noqa: E731


def workloads():
    """name -> (integration, physical type, statements, namespaces)"""
    ex = "http://example.org/"
    w = {}
    w["A"] = ("generic", 1, [
        (I(ex + "a/s1"), I(ex + "p#q"), ("lit", "héllo", "en", "")),
        (I(ex + "a/s1"), I(ex + "p#r"), ("lit", "5", "", "http://www.w3.org/2001/XMLSchema#integer")),
        (("bn", "b1"), I(ex + "p#q"), I(ex + "a/s2")),
        (("qt", I(ex + "a/s1"), I(ex + "p#q"), ("bn", "b2")), I(ex + "p#says"), I("noslash")),
    ], ())
    w["B"] = ("rdflib", 2, [
        (I(ex + "a/s1"), I(ex + "p#q"), ("lit", "x", "", ""), ("dg",)),
        (I(ex + "b/s9"), I(ex + "p#q"), ("lit", "x", "", ""), I(ex + "g/1")),
        (I(ex + "b/s9"), I(ex + "p#z"), I(ex + "a/s1"), I(ex + "g/1")),
        (("bn", "n7"), I(ex + "p#z"), ("lit", "chat", "EN", ""), ("bn", "g2")),
    ], ())
    w["C"] = ("generic", 2, [
        (I(ex + "c/1"), I(ex + "p#q"), I(ex + "c/2"), I(ex + "g/1")),
        (I(ex + "c/1"), I(ex + "p#q"), I(ex + "c/3"), I(ex + "g/1")),
        (I(ex + "c/4"), I(ex + "p#q"), ("lit", "t", "", ex + "dt"), ("dg",)),
        (I(ex + "c/4"), I(ex + "p#r"), ("lit", "t", "", ex + "dt"), ("dg",)),
    ], ())
    w["D"] = ("rdflib", 1, [
        (I(ex + "a/s1"), I(ex + "p#q"), ("lit", "1", "", "http://www.w3.org/2001/XMLSchema#integer")),
        (I(ex + "d/x"), I(ex + "p#q"), I(ex + "a/s1")),
        (I(ex + "d/x"), I(ex + "p#q"), I(ex + "d/y")),
        (("bn", "b1"), I(ex + "other"), ("lit", "chat", "en", "")),
    ], ())
    # eviction-heavy: 14 names, 5 prefixes, 3 datatypes cycling through tables of 8 / 3 / 2 slots, every statement touching two or three entries
    # of the same table -- whatever order the encoder visits them in decides who is evicted next
    def ev(i, quads):
        st = (I(f"{ex}n{i % 5}/name{i % 14}"), I(f"{ex}n{(i * 3) % 5}/name{(i * 5 + 1) % 14}"),
              (("lit", str(i % 4), "", f"{ex}dt{i % 3}") if i % 3 == 0 else I(f"{ex}n{(i + 2) % 5}/name{(i * 7 + 3) % 14}")))
        return st + ((I(f"{ex}n{i % 5}/name{(i + 9) % 14}") if i % 4 else ("dg",),) if quads else ())      # (graph in the subject's namespace: at most 3 prefixes per quad)
    w["E"] = ("generic", 1, [ev(i, False) for i in range(60)], ())
    w["F"] = ("rdflib", 2, [ev(i, True) for i in range(60)], ())
    return w


def options_for(integ, ptype, frame_size=1):
    return impl.make_options(impl.default_cfg(integ=integ, sclass=("triple" if ptype == 1 else "quad"), ltype=(1 if ptype == 1 else 2),
                                              frame_size=frame_size, preset=(8, 3, 2), gen=(integ == "generic"), star=(integ == "generic")))


def frames_generator(name, frame_size=1):
    integ, ptype, stmts, _ = workloads()[name]
    mod = __import__(f"pyjelly.integrations.{integ}.serialize", fromlist=["flat_stream_to_frames"])
    src = ((terms.stmt_to_generic(s) if integ == "generic" else impl.rdflib_statement(s)) for s in stmts)
    return mod.flat_stream_to_frames(src, options_for(integ, ptype, frame_size))


def solo_bytes(name, frame_size=1) -> bytes:
    out = io.BytesIO()
    for fr in frames_generator(name, frame_size):
        impl.write_delimited(fr, out)
    return out.getvalue()


def namespace_bytes() -> bytes:
    """A sink with several bindings and nsdecl on (iteration order of the bindings must not depend on hashing)."""
    _, _, stmts, _ = workloads()["A"]
    cfg = impl.default_cfg(integ="generic", entry="stream_frames", sclass="triple", ltype=1, nsdecl=True, preset=(8, 3, 2))
    nss = [("ex", "http://example.org/"), ("", "http://example.org/p#"), ("z", "http://z/"), ("a", "http://a/")]
    return impl.serialize(cfg, stmts, nss)


def rdflib_namespace_bytes() -> bytes:
    """An rdflib Graph with ONE triple (so rdflib's own hash-ordered iteration cannot matter), its ~30 default bindings plus four of its own, declarations on."""
    stmts = [(I("http://example.org/a/s1"), I("http://example.org/p#q"), ("lit", "x", "", ""))]
    cfg = impl.default_cfg(integ="rdflib", entry="graph_serialize", sclass="triple", ltype=1, nsdecl=True, preset=(16, 4, 2), gen=False, star=False)
    nss = [("ex", "http://example.org/"), ("q", "http://example.org/p#"), ("z", "http://z/"), ("a", "http://a/")]
    return impl.serialize(cfg, stmts, nss)


def graph_serialize_bytes() -> bytes:
    _, _, stmts, _ = workloads()["D"]
    cfg = impl.default_cfg(integ="rdflib", entry="graph_serialize", sclass="triple", ltype=1, preset=(8, 3, 2), gen=False, star=False)
    return impl.serialize(cfg, stmts)


def digests() -> dict:
    d = {name: hashlib.sha256(solo_bytes(name)).hexdigest() for name in workloads()}
    d["A/fs250"] = hashlib.sha256(solo_bytes("A", 250)).hexdigest()
    d["namespaces"] = hashlib.sha256(namespace_bytes()).hexdigest()
    d["rdflib-namespaces"] = hashlib.sha256(rdflib_namespace_bytes()).hexdigest()
    # rdflib's own iteration order over a Graph depends on hashing, so for Graph.serialize the statement SEQUENCE is not an
    # input the caller controls: only the content is compared
    content = sorted(repr(x) for x in impl.parse("rdflib", graph_serialize_bytes(), "flat"))
    d["Graph.serialize(content)"] = hashlib.sha256("\n".join(content).encode()).hexdigest()
    return d


def one_digest(name: str) -> str:
    if name in workloads():
        return hashlib.sha256(solo_bytes(name)).hexdigest()
    return digests()[name]


if __name__ == "__main__":
    if len(sys.argv) > 1:              # ONE workload, alone in a fresh process: no other stream has ever existed here
        json.dump({sys.argv[1]: one_digest(sys.argv[1])}, sys.stdout)
    else:
        json.dump(digests(), sys.stdout)
