"""
pytest plugin (kept in /verif, loaded with `-p harness.recorder_plugin`, active only when JELLY_RDF_PYJELLY_VERIF=1):
records every byte stream that pyjelly's own serializers write while the repository's test suite runs, by wrapping
write_delimited / write_single from outside.  Nothing in /repo is changed.

Only calls made from inside the pyjelly package are recorded (tests that hand-craft frames and call the writers
themselves are not pyjelly output).  The streams go to $VERIF_RECORD_FILE as JSON:
  [{"test": nodeid, "delimited": bool, "frames": [hex, ...]}, ...]
"""
from __future__ import annotations

import json
import os
import sys

ACTIVE = os.environ.get("JELLY_RDF_PYJELLY_VERIF") == "1" and bool(os.environ.get("VERIF_RECORD_FILE"))
_streams: dict = {}
_order: list = []
_current = {"test": ""}
MAX_FRAMES_PER_STREAM = 400


def _wrap(orig, delimited):
    def wrapper(frame, output_stream):
        try:
            caller = sys._getframe(1).f_globals.get("__name__", "")
            if caller.startswith("pyjelly."):
                key = id(output_stream)
                rec = _streams.get(key)
                if rec is None or rec["out"] is not output_stream:
                    rec = {"out": output_stream, "test": _current["test"], "delimited": delimited, "frames": [], "dropped": 0}
                    _streams[key] = rec
                    _order.append(rec)
                if len(rec["frames"]) < MAX_FRAMES_PER_STREAM:
                    rec["frames"].append(frame.SerializeToString(deterministic=True).hex())
                else:
                    rec["dropped"] += 1
        except Exception:  # noqa: BLE001  (recording must never disturb the tests)
            pass
        return orig(frame, output_stream)

    wrapper.__wrapped__ = orig
    return wrapper


if ACTIVE:
    import pyjelly.serialize.ioutils as _io

    _io.write_delimited = _wrap(_io.write_delimited, True)
    _io.write_single = _wrap(_io.write_single, False)
    for _name in ("pyjelly.integrations.generic.serialize", "pyjelly.integrations.rdflib.serialize"):
        _m = sys.modules.get(_name)
        if _m is not None:                       # already imported: rebind the names it imported
            for _f in ("write_delimited", "write_single"):
                if hasattr(_m, _f):
                    setattr(_m, _f, getattr(_io, _f))


def pytest_runtest_setup(item):
    _current["test"] = item.nodeid


def pytest_sessionfinish(session, exitstatus):
    if not ACTIVE:
        return
    out = [{"test": r["test"], "delimited": r["delimited"], "frames": r["frames"], "dropped": r["dropped"]} for r in _order if r["frames"]]
    with open(os.environ["VERIF_RECORD_FILE"], "w") as f:
        json.dump(out, f)
