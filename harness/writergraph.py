"""
State-graph comparison of the serializer at the granularity of one public call (DESIGN.md 4.3):
breadth-first walk on real Stream objects over a slice universe (triple / quad / namespace_declaration / graph(g, 0..k triples),
refusals included); the set of reachable idle states is compared with
TLC's, and every real transition is re-executed by TLC on the model (spec/TraceWriter.tla) and compared.
"""
from __future__ import annotations

import copy
import itertools
import json
import os

from . import env, impl, tlc, wire, writer
from .writer import cfg_text

env.import_pyjelly()


def model_idle_states(consts: dict, timeout=900):
    r = tlc.run("MCWriter", cfg_text(consts, ("Good", "PrintIdle", "PrintPools")), workers=1, timeout=timeout)
    if r.violated or not r.ok:
        env.machinery_failure(f"writer graph: {r.violated or r.errors[:2]}")
    idle = {canon(json.loads(p)) for p in r.printed("IDLE")}
    pools = json.loads(r.printed("POOLS")[0])
    return idle, pools, r


def canon(x) -> str:
    return json.dumps(x, sort_keys=True, separators=(",", ":"))


def make_stream(c: dict):
    from pyjelly.serialize.lookup import LookupEncoder  # noqa: PLC0415

    ptype = c["PType"]
    mn = max(c["MaxN"], 8)
    cfg = impl.default_cfg(integ="generic", sclass={1: "triple", 2: "quad", 3: "graph"}[ptype], ltype=(1 if ptype == 1 else 2), delimited=True,
                           frame_size=(c["FrameSize"] or 10**6), preset=(mn, c["MaxP"], c["MaxD"]), gen=True, star=True, nsdecl=bool(c.get("NsDecl")))
    stream = impl.make_stream(cfg)
    if c["MaxN"] < 8:                       # model-only name table sizes: the real encoder takes any size, only LookupPreset refuses < 8
        stream.encoder.names = LookupEncoder(lookup_size=c["MaxN"])
    stream.enroll()
    return stream


def key_of(stream, c, back):
    def tab(enc):
        d = enc.lookup.data
        return {"ord": list(d.keys()), "ix": list(d.values()), "la": enc.last_assigned_index, "lu": enc.last_reused_index}

    rep = [back.get(id(t), None) if t is not None else ["none"] for t in stream.repeated_terms]
    if any(r is None for r in rep):
        raise AttributeError("Stream.repeated_terms does not hold the term objects of the previous statement")
    return {"N": tab(stream.encoder.names), "P": tab(stream.encoder.prefixes), "D": tab(stream.encoder.datatypes),
            "rep": rep, "gcur": ["none"], "buf": (len(stream.flow) if c["FrameSize"] else 0)}


def calls_of(c: dict, pools: dict, body_max: int):
    """The public calls of the slice, each as the list of model ops it stands for."""
    ptype = c["PType"]
    slots = "spog"[: (4 if ptype == 2 else 3)]
    statements = [list(st) for st in itertools.product(*[pools[s] for s in slots])]
    calls = []
    if ptype == 3:
        for g in pools["g"]:
            for k in range(body_max + 1):
                for body in itertools.product(statements, repeat=k):
                    calls.append([{"op": "gs", "g": g}] + [{"op": "stmt", "st": st} for st in body] + [{"op": "ge"}])
    else:
        calls += [[{"op": "stmt", "st": st}] for st in statements]
    if c.get("NsDecl"):
        calls += [[{"op": "ns", "ns": list(ns)}] for ns in pools.get("ns", [])]
    return calls


def walk(c: dict, pools: dict, max_transitions=10**7, body_max=2):
    """BFS on real Stream objects, one edge per public call. Returns (idle state keys, transitions [{id, from, ops, rows, to}])."""
    ptype = c["PType"]
    calls = calls_of(c, pools, body_max)
    sub = writer.Subst()
    # real term objects, one per model term, so that repeated_terms can be mapped back
    objs = {}
    back = {}

    def obj(t):
        k = json.dumps(t)
        if k not in objs:
            o = writer.to_impl_term(writer.abs_term(t, sub), "generic")
            objs[k] = o
            back[id(o)] = t
        return objs[k]

    root = make_stream(c)
    seen = {canon(key_of(root, c, back)): root}
    queue = [root]
    trans = []
    while queue and len(trans) < max_transitions:
        nxt = []
        for st0 in queue:
            k0 = key_of(st0, c, back)
            for ops in calls:
                s2 = copy.deepcopy(st0)
                # the deep copy duplicated the term objects held in repeated_terms: point them back at the shared ones
                s2.repeated_terms = list(st0.repeated_terms)
                before = len(s2.flow)
                frames = []
                raised = None
                try:
                    first = ops[0]
                    if first["op"] == "ns":
                        label, p, n = first["ns"]
                        s2.namespace_declaration(sub.o(label), sub.iri(p, n))
                    elif first["op"] == "gs":
                        body = [[obj(t) for t in o["st"]] for o in ops[1:-1]]
                        for fr in s2.graph(obj(first["g"]), iter(body)):
                            frames.append(fr)
                    else:
                        st = first["st"][: first["st"].index(["end"])] if ["end"] in first["st"] else first["st"]   # malformed tuple: ends early
                        tt = [obj(t) for t in st]
                        fr = s2.quad(tt) if ptype == 2 else s2.triple(tt)
                        if fr is not None:
                            frames.append(fr)
                except Exception as ex:  # noqa: BLE001  (refused: in the model the stream is failed from here on)
                    raised = type(ex).__name__
                rows_pb = [r for fr in frames for r in fr.rows] + list(s2.flow)
                rows = [wire.dec_row(r.SerializeToString(deterministic=True)) for r in rows_pb[before:]]
                if raised is not None:
                    k2 = {"failed": True} if getattr(s2, "failed", False) else {"raised-but-usable": raised}
                else:
                    k2 = key_of(s2, c, back)
                trans.append({"id": len(trans), "from": k0, "ops": ops, "rows": rows, "to": k2})
                if raised is None:
                    ck = canon(k2)
                    if ck not in seen:
                        seen[ck] = s2
                        nxt.append(s2)
        queue = nxt
    return set(seen), trans


def judge_transitions(c: dict, trans, chunk=6000, timeout=900):
    """TLC re-executes every real transition on the model; returns {id: {bad, rows, to}} ."""
    from concurrent.futures import ThreadPoolExecutor  # noqa: PLC0415

    chunks = [trans[i:i + chunk] for i in range(0, len(trans), chunk)]
    cc = dict(c, HistLen=max(len(t["ops"]) for t in trans), AllowReject=True)

    def one(ch):
        path = os.path.join(env.workdir(), f"wg-{os.getpid()}-{ch[0]['id']}.json")
        with open(path, "w") as f:
            json.dump([{"id": t["id"], "from": t["from"], "ops": t["ops"]} for t in ch], f)
        cfg = cfg_text(cc, ("Report",)).replace("SPECIFICATION Spec", "INIT TInit\nNEXT TNext")
        r = tlc.run("MCTraceWriter", cfg, workers=2, timeout=timeout, env_extra={"TRACE_FILE": path},
                    module_text=open(os.path.join(env.SPEC, "MCWriter.tla")).read().replace("MODULE MCWriter", "MODULE MCTraceWriter").replace("EXTENDS PyWriter", "EXTENDS TraceWriter"))
        os.unlink(path)
        return r

    out = {}
    stats = {"states": 0, "transitions": 0}
    with ThreadPoolExecutor(6) as ex:
        for r in ex.map(one, chunks):
            if not r.finished or (r.errors and not r.printed("STEP")):
                env.machinery_failure("writer graph judge: " + "\n".join(r.out.splitlines()[-12:]))
            stats["states"] += r.distinct
            stats["transitions"] += r.generated
            for p in r.printed("STEP"):
                d = json.loads(p)
                out[d["id"]] = d
    return out, stats
