"""
State-graph comparison of the serializer at the granularity of one public call (DESIGN.md 4.3):
breadth-first walk on real Stream objects over a slice universe (triple / quad / namespace_declaration / graph(g, 0..k triples),
refusals included); the set of reachable idle states is compared with
TLC's, and every real transition is re-executed by TLC on the model (spec/TraceWriter.tla) and compared.
"""
from __future__ import annotations

import copy
import itertools
import json
import os

from . import env, impl, terms, tlc, wire, writer
from .writer import cfg_text

env.import_pyjelly()


def model_idle_states(consts: dict, timeout=900):
    r = tlc.run("MCWriter", cfg_text(consts, ("Good", "PrintIdle", "PrintPools")), workers=1, timeout=timeout)
    if r.violated or not r.ok:
        env.machinery_failure(f"writer graph: {r.violated or r.errors[:2]}")
    idle = {canon(json.loads(p)) for p in r.printed("IDLE")}
    pools = json.loads(r.printed("POOLS")[0])
    return idle, pools, r


def canon(x) -> str:
    return json.dumps(x, sort_keys=True, separators=(",", ":"))


def make_stream(c: dict, integ: str = "generic"):
    from pyjelly.serialize.lookup import LookupEncoder  # noqa: PLC0415

    ptype = c["PType"]
    mn = max(c["MaxN"], 8)
    cfg = impl.default_cfg(integ=integ, sclass={1: "triple", 2: "quad", 3: "graph"}[ptype], ltype=(1 if ptype == 1 else 2), delimited=True,
                           frame_size=(c["FrameSize"] or 10**6), preset=(mn, c["MaxP"], c["MaxD"]), gen=True, star=True, nsdecl=bool(c.get("NsDecl")))
    stream = impl.make_stream(cfg)
    if c["MaxN"] < 8:                       # model-only name table sizes: the real encoder takes any size, only LookupPreset refuses < 8
        stream.encoder.names = LookupEncoder(lookup_size=c["MaxN"])
    stream.enroll()
    return stream


def key_of(stream, c, back):
    def tab(enc):
        d = enc.lookup.data
        return {"ord": list(d.keys()), "ix": list(d.values()), "la": enc.last_assigned_index, "lu": enc.last_reused_index}

    rep = [back(t, i) if t is not None else ["none"] for i, t in enumerate(stream.repeated_terms)]
    if any(r is None for r in rep):
        raise AttributeError("Stream.repeated_terms does not hold the terms of the previous statement")
    return {"N": tab(stream.encoder.names), "P": tab(stream.encoder.prefixes), "D": tab(stream.encoder.datatypes),
            "rep": rep, "gcur": ["none"], "buf": (len(stream.flow) if c["FrameSize"] else 0)}


PARENT: dict = {}      # state key -> (parent key, call) of the last walk: shortest history of calls reaching a state


def history_to(key) -> list:
    """The calls (shortest sequence) that bring a fresh stream into the state with that projection."""
    path, ck = [], canon(key)
    while ck in PARENT:
        ck, ops = PARENT[ck]
        path.append(ops)
    return path[::-1]


def calls_of(c: dict, pools: dict, body_max: int):
    """The public calls of the slice, each as the list of model ops it stands for."""
    ptype = c["PType"]
    slots = "spog"[: (4 if ptype == 2 else 3)]
    statements = [list(st) for st in itertools.product(*[pools[s] for s in slots])]
    calls = []
    if ptype == 3:
        for g in pools["g"]:
            for k in range(body_max + 1):
                for body in itertools.product(statements, repeat=k):
                    calls.append([{"op": "gs", "g": g}] + [{"op": "stmt", "st": st} for st in body] + [{"op": "ge"}])
    else:
        calls += [[{"op": "stmt", "st": st}] for st in statements]
    if c.get("NsDecl"):
        calls += [[{"op": "ns", "ns": list(ns)}] for ns in pools.get("ns", [])]
    return calls


def walk(c: dict, pools: dict, max_transitions=10**7, body_max=2, integ="generic"):
    """BFS on real Stream objects, one edge per public call. Returns (idle state keys, transitions [{id, from, ops, rows, to}])."""
    ptype = c["PType"]
    calls = calls_of(c, pools, body_max)
    sub = writer.Subst()
    # every call gets FRESH term objects (equal to, never identical with, those of earlier calls -- what a caller reading a file line by line
    # produces); the terms a stream remembers are mapped back to model terms by VALUE
    by_value = {}

    def obj(t):
        a = writer.abs_term(t, sub)
        by_value[repr(a)] = t
        return writer.to_impl_term(a, integ)

    def back(o, slot):
        try:
            a = terms.from_generic(o) if integ == "generic" else terms.from_rdflib(o, graph_position=(slot == 3))
        except Exception:  # noqa: BLE001
            return None
        return by_value.get(repr(a))

    root = make_stream(c, integ)
    seen = {canon(key_of(root, c, back)): root}
    PARENT.clear()
    queue = [root]
    trans = []
    while queue and len(trans) < max_transitions:
        nxt = []
        for st0 in queue:
            k0 = key_of(st0, c, back)
            for ops in calls:
                s2 = copy.deepcopy(st0)
                # the remembered terms stay the objects the earlier call handed in (a deep copy of a singleton such as the generic DefaultGraph
                # would no longer be equal to it); the terms of THIS call are fresh objects all the same
                s2.repeated_terms = list(st0.repeated_terms)
                before = len(s2.flow)
                frames = []
                raised = None
                try:
                    first = ops[0]
                    if first["op"] == "ns":
                        label, p, n = first["ns"]
                        s2.namespace_declaration(sub.o(label), sub.iri(p, n))
                    elif first["op"] == "gs":
                        body = [[obj(t) for t in o["st"]] for o in ops[1:-1]]
                        for fr in s2.graph(obj(first["g"]), iter(body)):
                            frames.append(fr)
                    else:
                        st = first["st"][: first["st"].index(["end"])] if ["end"] in first["st"] else first["st"]   # malformed tuple: ends early
                        tt = [obj(t) for t in st]
                        fr = s2.quad(tt) if ptype == 2 else s2.triple(tt)
                        if fr is not None:
                            frames.append(fr)
                except Exception as ex:  # noqa: BLE001  (refused: in the model the stream is failed from here on)
                    raised = type(ex).__name__
                rows_pb = [r for fr in frames for r in fr.rows] + list(s2.flow)
                rows = [wire.dec_row(r.SerializeToString(deterministic=True)) for r in rows_pb[before:]]
                if raised is not None:
                    k2 = {"failed": True} if getattr(s2, "failed", False) else {"raised-but-usable": raised}
                else:
                    k2 = key_of(s2, c, back)
                trans.append({"id": len(trans), "from": k0, "ops": ops, "rows": rows, "to": k2})
                if raised is None:
                    ck = canon(k2)
                    if ck not in seen:
                        seen[ck] = s2
                        PARENT[ck] = (canon(k0), ops)
                        nxt.append(s2)
        queue = nxt
    return set(seen), trans


def judge_transitions(c: dict, trans, chunk=6000, timeout=900):
    """TLC re-executes every real transition on the model; returns {id: {bad, rows, to}} ."""
    from concurrent.futures import ThreadPoolExecutor  # noqa: PLC0415

    chunks = [trans[i:i + chunk] for i in range(0, len(trans), chunk)]
    cc = dict(c, HistLen=max(len(t["ops"]) for t in trans), AllowReject=True)

    def one(ch):
        path = os.path.join(env.workdir(), f"wg-{os.getpid()}-{ch[0]['id']}.json")
        with open(path, "w") as f:
            json.dump([{"id": t["id"], "from": t["from"], "ops": t["ops"], "to": t["to"], "rows": [terms.jrow(r) for r in t["rows"]]} for t in ch], f)
        cfg = cfg_text(cc, ("Report", "ReportInd")).replace("SPECIFICATION Spec", "INIT TInit\nNEXT TNext")
        r = tlc.run("MCTraceWriter", cfg, workers=2, timeout=timeout, env_extra={"TRACE_FILE": path},
                    module_text=open(os.path.join(env.SPEC, "MCWriter.tla")).read().replace("MODULE MCWriter", "MODULE MCTraceWriter").replace("EXTENDS PyWriter", "EXTENDS TraceWriter"))
        os.unlink(path)
        return r

    out = {}
    stats = {"states": 0, "transitions": 0}
    with ThreadPoolExecutor(6) as ex:
        for r in ex.map(one, chunks):
            if not r.finished or (r.errors and not r.printed("STEP")):
                env.machinery_failure("writer graph judge: " + "\n".join(r.out.splitlines()[-12:]))
            stats["states"] += r.distinct
            stats["transitions"] += r.generated
            for p in r.printed("STEP"):
                d = json.loads(p)
                out.setdefault(d["id"], {}).update(d)
            for p in r.printed("IND"):
                d = json.loads(p)
                out.setdefault(d["id"], {})["ind"] = d["ind"]
    return out, stats


def compare_slice(run, name: str, base: dict, body_max, *, integ="generic", model_cache=None):
    """Walk one slice on real Streams (term encoder of `integ`), have TLC judge every real call twice -- the Tier-1 inductive step on the
    real rows, and the comparison with PyWriter -- and report: Tier-1 failures as violations of run's property (with the history of calls
    that reaches the state), everything else as model drift.  Returns (stats dict, tlc stats) or (None, None) when the projection is unusable."""
    c = dict(base, CheckFits=False, AllowReject=True)   # the code's own (elision-aware) refusal; a refused call leaves a failed stream
    if model_cache is not None and name in model_cache:
        idle, pools = model_cache[name]
    else:
        idle, pools, _gr = model_idle_states(c)
        idle = {k for k in idle if '"gcur":["none"]' in k}   # a public call starts and ends with every graph closed
        if model_cache is not None:
            model_cache[name] = (idle, pools)
    try:
        real_idle, trans = walk(c, pools, body_max=body_max or 0, integ=integ)
    except (AttributeError, TypeError, KeyError) as ex:       # the projection reads encoder internals; renamed or restructured internals degrade this comparison only
        run.model_drift(f"state projection of Stream/TermEncoder unavailable ({ex}): state-graph comparison of {name} skipped")
        return None, None
    judged, gst = judge_transitions(c, trans)
    mism = refused = ind_bad = 0
    tag = f"slice {name}" + ("" if integ == "generic" else f" ({integ} term encoder)")
    for tr in trans:
        o = judged.get(tr["id"]) or {}
        refused += "failed" in tr["to"]
        ind = o.get("ind")
        if ind is None:
            env.machinery_failure(f"writer graph: TLC gave no inductive-step verdict for a real call ({name}, {tr['ops']})")
        if ind != "ok":
            ind_bad += 1
            if ind.startswith("Mirror"):
                if ind_bad <= 3:
                    run.model_drift(f"{tag}: after {tr['ops']} the Tier-1 reader does not mirror the real successor state ({ind}): the induction does not go through")
            else:
                hist = history_to(tr["from"])
                run.violation({"clause": "inductive-step:" + ind.split(":")[0], "detail": ind, "binding": "writer-state-graph", "slice": name, "integ": integ},
                              f"from the state reached by {len(hist)} call(s), the rows written by {tr['ops']} are judged {ind} by the Tier-1 reader",
                              {"consts": c, "integ": integ, "history": hist, "call": tr["ops"], "rows": tr["rows"], "state": tr["from"], "successor": tr["to"]})
        if "rows" not in o:
            mism += 1
            if mism <= 2:
                run.model_drift(f"{tag}: real call {tr['ops']} from a reachable state is not a behaviour of PyWriter")
            continue
        if o["bad"]:
            # the model, started from the REAL state, breaks its own clause: that state is not one PyWriter reaches (the code departs from the model);
            # the verdict on the code is the inductive step above, which does not use PyWriter
            mism += 1
            if mism <= 2:
                run.model_drift(f"{tag}: re-executed from the real state, PyWriter's own clause {o['bad']} fails for {tr['ops']}: the real state is foreign to the model")
            continue
        mrows = [x for op_rows in o["rows"] for x in op_rows]
        if canon([writer.norm_row(x) for x in mrows]) != canon([writer.norm_row(x) for x in tr["rows"]]) or canon(o["to"]) != canon(tr["to"]):
            mism += 1
            if mism <= 2:
                run.model_drift(f"{tag}: call {tr['ops']}: rows or successor state differ between PyWriter and the real Stream "
                                f"(model -> {str(o['to'])[:80]}, real -> {str(tr['to'])[:80]})")
    same = (real_idle <= idle) if body_max is not None else (idle == real_idle)
    if not same:
        run.model_drift(f"{tag}: real Streams reach {len(real_idle)} idle states, PyWriter {len(idle)}")
    return ({"model_idle_states": len(idle), "real_idle_states": len(real_idle), "same_state_set": idle == real_idle, "real_calls": len(trans),
             "of_which_refused": refused, "calls_equal_to_model": len(trans) - mism, "inductive_step_ok": len(trans) - ind_bad}, gst)


RDF11 = ("flow2", "nameq", "ns", "flow3g", "pfx", "flow1", "flow1q", "wg-c18p", "wg-c18pq", "wg-c18g")   # slices rdflib can carry


def slice_consts(name: str) -> dict:
    from . import universes as U  # noqa: PLC0415

    for d in (U.THOROUGH_SLICES, U.WG, U.C20):
        if name in d:
            return d[name]
    raise KeyError(name)
