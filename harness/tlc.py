"""Running TLC: model checking, simulation, and batch trace judging."""
from __future__ import annotations

import json
import os
import re
import shutil
import subprocess
import tempfile
import time

from . import env

JAVA_CP = "/opt/veriftools/tla/tla2tools.jar:/opt/veriftools/tla/CommunityModules-deps.jar"


class TLCResult:
    def __init__(self, out: str, rc: int, wall: float):
        self.out = out
        self.rc = rc
        self.wall = wall
        m = re.search(r"(\d+) states generated, (\d+) distinct states found, (\d+) states left on queue", out)
        self.generated = int(m.group(1)) if m else 0
        self.distinct = int(m.group(2)) if m else 0
        self.left = int(m.group(3)) if m else 0
        if not m:                                   # simulation mode reports differently
            m2 = re.search(r"The number of states generated: (\d+)", out)
            if m2:
                self.generated = self.distinct = int(m2.group(1))
        m = re.search(r"The depth of the complete state graph search is (\d+)", out)
        self.depth = int(m.group(1)) if m else 0
        self.violated = re.findall(r"Error: Invariant (\S+) is violated", out)
        self.violated += re.findall(r"Error: Action property (\S+) is violated", out)
        if "Error: Temporal properties were violated" in out:
            self.violated.append("<temporal>")
        self.deadlock = "Error: Deadlock reached" in out
        self.errors = [l for l in out.splitlines() if l.startswith("Error:")]
        self.finished = "Model checking completed" in out or "Finished in" in out

    @property
    def ok(self) -> bool:
        return self.finished and not self.errors and self.rc == 0

    def action_coverage(self) -> dict:
        """Per-action distinct/total counts from -coverage output: {name: (distinct, total)}."""
        cov = {}
        for m in re.finditer(r"<(\w+) line \d+, col \d+ to line \d+, col \d+ of module (\w+)>: (\d+):(\d+)", self.out):
            name = m.group(1)
            d, t = int(m.group(3)), int(m.group(4))
            # the final coverage report is printed last: keep the last occurrence
            cov[name] = (d, t)
        return cov

    def printed(self, prefix: str) -> list[str]:
        """Payloads of PrintT("<prefix> ...") lines."""
        res = []
        for line in self.out.splitlines():
            line = line.strip()
            if line.startswith('"' + prefix + " "):
                body = line[1:-1] if line.endswith('"') else line[1:]
                res.append(_unescape_tla(body[len(prefix) + 1:]))
        return res

    def counterexample(self) -> list[dict]:
        """States of the error trace: [{'action': str, 'vars': {name: text}}]."""
        states = []
        cur = None
        for line in self.out.splitlines():
            m = re.match(r"State (\d+): <(.*)>$", line)
            if m:
                cur = {"action": m.group(2), "text": []}
                states.append(cur)
                continue
            if cur is not None:
                if line.strip() == "" or line.startswith("Error:") or re.match(r"\d+ states generated", line):
                    cur = None
                else:
                    cur["text"].append(line)
        return states


def _unescape_tla(s: str) -> str:
    # PrintT prints a TLA+ string literal: \" and \\ are escaped
    return s.replace('\\"', '"').replace("\\\\", "\\")


def run(module: str, cfg: str, *, workers: int | str = "auto", timeout: int = 600, env_extra: dict | None = None,
        args: list[str] | None = None, coverage: bool = False, heap: str = "4g", cwd: str | None = None,
        module_text: str | None = None) -> TLCResult:
    """Run TLC on spec/<module>.tla with config text or path `cfg`.

    module_text: a generated root module (constants as definitions) that EXTENDS a spec under spec/.
    """
    work = tempfile.mkdtemp(prefix="tlc-", dir=env.workdir())
    specdir = cwd or env.SPEC
    if module_text is not None:
        specdir = work
        with open(os.path.join(work, module + ".tla"), "w") as f:
            f.write(module_text)
    if "\n" in cfg or not cfg.endswith(".cfg"):
        cfg_path = os.path.join(work, f"{module}.cfg")
        with open(cfg_path, "w") as f:
            f.write(cfg)
    else:
        cfg_path = cfg if os.path.isabs(cfg) else os.path.join(specdir, cfg)
    jtmp = os.path.join(work, "jtmp")          # TLC unpacks its standard modules into java.io.tmpdir on every run and leaves them there: keep that inside the
    os.makedirs(jtmp, exist_ok=True)           # per-run directory, which is removed below (otherwise /tmp collects tens of thousands of tlc-* directories)
    cmd = ["java", "-XX:+UseParallelGC", f"-Xmx{heap}", f"-Djava.io.tmpdir={jtmp}", f"-DTLA-Library={env.SPEC}{os.pathsep}{os.path.join(env.SPEC, 'proofs')}", "-cp", JAVA_CP, "tlc2.TLC",
           "-workers", str(workers), "-metadir", os.path.join(work, "meta"), "-noGenerateSpecTE",
           "-config", cfg_path]
    if coverage:
        cmd += ["-coverage", "1"]
    if args:
        cmd += args
    cmd.append(os.path.join(specdir, module + ".tla"))
    e = dict(os.environ)
    if env_extra:
        e.update(env_extra)
    t0 = time.time()
    try:
        p = subprocess.run(cmd, cwd=specdir, env=e, capture_output=True, text=True, timeout=timeout)
        out, rc = p.stdout + p.stderr, p.returncode
    except subprocess.TimeoutExpired as ex:
        out = (ex.stdout or b"").decode("utf-8", "replace") if isinstance(ex.stdout, bytes) else (ex.stdout or "")
        out += "\nError: TLC timed out"
        rc = 124
    res = TLCResult(out, rc, time.time() - t0)
    shutil.rmtree(work, ignore_errors=True)
    return res


JUDGE_CFG = "INIT Init\nNEXT Next\nCHECK_DEADLOCK FALSE\n"


def judge(traces: list[dict], *, module: str = "TraceReader", timeout: int = 900, chunk_rows: int = 60000,
          parallel: int = 6) -> dict:
    """Judge a batch of traces with TLC; returns {id: verdict-dict}.

    Each trace: {"id": int, "rows": [...], "mode": "seq"|"set"|"none", "exp": [...]}.
    A missing verdict is a machinery failure, never a pass.
    """
    if not traces:
        return {}
    chunks, cur, n = [], [], 0
    for t in traces:
        t.setdefault("prefix", False)
        cur.append(t)
        n += len(t["rows"]) + 1
        if n >= chunk_rows:
            chunks.append(cur)
            cur, n = [], 0
    if cur:
        chunks.append(cur)
    verdicts: dict = {}
    stats = {"states": 0, "transitions": 0, "wall": 0.0, "jvms": len(chunks)}

    def one(chunk):
        path = os.path.join(env.workdir(), f"batch-{os.getpid()}-{id(chunk)}.json")
        with open(path, "w") as f:
            json.dump(chunk, f)
        r = run(module, JUDGE_CFG, workers=2 if len(chunks) > 1 else 4, timeout=timeout, env_extra={"TRACE_FILE": path})
        os.unlink(path)
        return chunk, r

    if len(chunks) == 1:
        results = [one(chunks[0])]
    else:
        from concurrent.futures import ThreadPoolExecutor  # noqa: PLC0415

        with ThreadPoolExecutor(max_workers=parallel) as ex:
            results = list(ex.map(one, chunks))
    for chunk, r in results:
        stats["states"] += r.distinct
        stats["transitions"] += r.generated
        stats["wall"] += r.wall
        for payload in r.printed("VERDICT"):
            try:
                v = json.loads(payload)
            except json.JSONDecodeError:
                continue
            verdicts[v["id"]] = v
        missing = [t["id"] for t in chunk if t["id"] not in verdicts]
        if missing or not r.finished or r.errors:
            tail = "\n".join(r.out.splitlines()[-30:])
            env.machinery_failure(f"TLC judge: missing verdicts {missing[:5]} rc={r.rc}\n{tail}")
    verdicts["__stats__"] = stats
    return verdicts
