"""
The usage lattice of spec/PyUsage.tla executed on the real library: one function per side.
A point is a dict as TLC prints it; the result is ("ok", value) or ("raised", "Type: message").
"""
from __future__ import annotations

import gzip
import io
import os
import tempfile

from . import env, framing, impl, terms

env.import_pyjelly()


# ----------------------------------------------------------------------------
# read side


class _Duck:
    def __init__(self, data):
        self._f = io.BytesIO(data)

    def read(self, n=-1):
        return self._f.read(n)

    def seek(self, *a):
        return self._f.seek(*a)

    def tell(self):
        return self._f.tell()

    def seekable(self):
        return True

    def readable(self):
        return True

    def close(self):
        pass


def open_source(kind: str, data: bytes, workdir: str):
    """-> (file object, cleanup callable)"""
    pre = b"# preamble of some container format\n"
    path = os.path.join(workdir, f"src-{abs(hash((kind, len(data)))) % 10**9}.jelly")
    if kind == "bytesio":
        return io.BytesIO(data), None
    if kind == "bytesio-at-offset":
        b = io.BytesIO(pre + data)
        b.seek(len(pre))
        return b, None
    if kind in ("file", "file-at-offset", "buffered-random", "gzip"):
        if kind == "gzip":
            with gzip.open(path, "wb") as f:
                f.write(data)
            fh = gzip.open(path, "rb")
        else:
            with open(path, "wb") as f:
                f.write((pre if kind == "file-at-offset" else b"") + data)
            fh = open(path, "r+b" if kind == "buffered-random" else "rb")  # noqa: SIM115
            if kind == "file-at-offset":
                fh.seek(len(pre))
        return fh, lambda: (fh.close(), os.unlink(path))
    if kind == "named-temporary-file":
        fh = tempfile.NamedTemporaryFile(dir=workdir)  # noqa: SIM115
        fh.write(data)
        fh.seek(0)
        return fh, fh.close
    if kind == "spooled-temporary-file":
        fh = tempfile.SpooledTemporaryFile(max_size=64, dir=workdir)  # noqa: SIM115
        fh.write(data)
        fh.seek(0)
        return fh, fh.close
    if kind == "duck-typed-seekable":
        return _Duck(data), None
    if kind == "pipe-full-reads":
        return framing.ChunkedRaw(data, [], then=None), None
    if kind == "pipe-1-1-1":
        return framing.ChunkedRaw(data, [1, 1, 1], then=64), None
    if kind == "pipe-7-byte-reads":
        return framing.ChunkedRaw(data, [], then=7), None
    if kind == "buffered-over-pipe":
        return io.BufferedReader(framing.ChunkedRaw(data, [2, 5], then=64), buffer_size=32), None
    if kind in ("socket-makefile", "socket-makefile-unbuffered"):
        # the stream arrives over a socket (the documented streaming use): everything is sent, the producer closes, the consumer reads through makefile()
        import socket  # noqa: PLC0415

        if len(data) > 32768:
            raise ValueError("socket sources are for small workloads only")
        a, b = socket.socketpair()
        a.sendall(data)
        a.close()
        fh = b.makefile("rb", buffering=(0 if kind.endswith("unbuffered") else 16))
        return fh, lambda: (fh.close(), b.close())
    raise ValueError(kind)


def run_read(p: dict, data: bytes, workdir: str):
    """Returns ("ok", list of items in order | sorted list for graph-shaped results) or ("raised", text)."""
    integ = p["integ"]
    mod = __import__(f"pyjelly.integrations.{integ}.parse", fromlist=["parse_jelly_flat"])
    conv = terms.item_from_generic if integ == "generic" else terms.item_from_rdflib
    src, cleanup = open_source(p["source"], data, workdir)
    try:
        entry = p["entry"]
        custom = p["factory"] == "custom"
        if entry in ("flat", "flat-preread"):
            if entry == "flat-preread":
                from pyjelly.parse.ioutils import get_options_and_frames  # noqa: PLC0415

                options, frames = get_options_and_frames(src)
                it = mod.parse_jelly_flat(src, frames=frames, options=options)
            else:
                it = mod.parse_jelly_flat(src)
            return "ok", [terms.norm_item(conv(x)) for x in it]
        if integ == "generic":
            gs = terms.generic_classes()

            class MySink(gs.GenericStatementSink):
                pass

            kw = {"sink_factory": (lambda: MySink())} if custom else {}
            if entry == "grouped":
                sinks = list(mod.parse_jelly_grouped(src, **kw))
            elif entry == "to_graph":
                sinks = [mod.parse_jelly_to_graph(src, **kw)]
            else:
                s_ = gs.GenericStatementSink()
                s_.parse(src)
                sinks = [s_]
            if custom and any(not isinstance(s_, MySink) for s_ in sinks):
                return "raised", "FactoryIgnored: a sink was not made by the factory"
            out = []
            for s_ in sinks:
                out += [terms.norm_item(("ns", pfx, iri._iri)) for pfx, iri in s_.namespaces] + [terms.norm_item(terms.item_from_generic(x)) for x in s_]
            return "ok", out
        from rdflib.graph import Dataset, Graph  # noqa: PLC0415

        class MyGraph(Graph):
            pass

        class MyDataset(Dataset):
            pass

        kw = {"graph_factory": (lambda: MyGraph()), "dataset_factory": (lambda: MyDataset())} if custom else {}
        if entry == "grouped":
            sinks = list(mod.parse_jelly_grouped(src, **kw))
        elif entry == "to_graph":
            sinks = [mod.parse_jelly_to_graph(src, **kw)]
        else:
            t = Dataset() if p["kind"] != "triples" else Graph()
            t.parse(source=src, format="jelly")
            sinks = [t]
        if custom and any(not isinstance(s_, (MyGraph, MyDataset)) for s_ in sinks):
            return "raised", "FactoryIgnored: a sink was not made by the factory"
        out = []
        for s_ in sinks:
            out += [terms.norm_item(x) for x in impl._items_of_rdflib_store(s_)]
        return "ok", out
    except Exception as ex:  # noqa: BLE001
        return "raised", f"{type(ex).__name__}: {str(ex)[:120]}"
    finally:
        if cleanup:
            try:
                cleanup()
            except Exception:  # noqa: BLE001
                pass


def shape(entry: str, items, statements_only=True):
    """Comparable form: the statements (namespace items dropped), as a sorted list (graph-shaped entry points do not keep the order)."""
    st = [x for x in items if x[0] != "ns"] if statements_only else list(items)
    return sorted(map(repr, st))


# ----------------------------------------------------------------------------
# write side


class _Iter:
    def __init__(self, it):
        self._it = it

    def __iter__(self):
        return self

    def __next__(self):
        return next(self._it)


def _input(p, stmts, integ, namespaces=()):
    kind = p["input"]
    is_ds = p["kind"] != "triples"
    if kind == "container":
        return impl.generic_sink(stmts, namespaces) if integ == "generic" else impl.rdflib_container(stmts, namespaces, dataset=is_ds)
    mk = (lambda s: terms.stmt_to_generic(s)) if integ == "generic" else (lambda s: impl.rdflib_statement(s))
    if kind == "generator":
        return (mk(s) for s in stmts)
    if kind == "map-iterator":
        return map(mk, stmts)
    if kind == "iterator-class":
        return _Iter(mk(s) for s in stmts)
    if kind == "list":
        return [mk(s) for s in stmts]
    if kind == "plain-tuples-generator":
        return (tuple(mk(s)) for s in stmts)
    raise ValueError(kind)


def run_write(p: dict, stmts, workdir: str):
    """Returns ("ok", bytes) or ("raised", text)."""
    integ = p["integ"]
    kind = p["kind"]
    sclass = {"triples": "triple", "quads": "quad", "graphs": "graph"}[kind]
    lt = 1 if kind == "triples" else 2
    mod = __import__(f"pyjelly.integrations.{integ}.serialize", fromlist=["stream_frames"])
    cfg = impl.default_cfg(integ=integ, sclass=sclass, ltype=lt, delimited=p["delimited"], frame_size=3, preset=(16, 4, 2),
                           gen=(integ == "generic"), star=(integ == "generic"))
    if p["options"] == "explicit-flow-object":
        cfg.update(flow=("flat_triples" if kind == "triples" else "flat_quads"), options_frame_size=250)
    try:
        options = None if p["options"] == "guessed" else impl.make_options(cfg)
        if p["options"] == "shared-object-second-use":
            # the options object has already served another stream, which was abandoned with rows still buffered
            other = impl.make_stream(cfg, options)
            other.enroll()
        path = os.path.join(workdir, f"out-{abs(hash(repr(sorted(p.items())))) % 10**9}.jelly")
        out_kind = p["output"]
        raw = None
        if out_kind == "file":
            out = open(path, "wb")  # noqa: SIM115
        elif out_kind == "buffered-writer":
            raw = io.BytesIO()
            out = io.BufferedWriter(raw, buffer_size=16)
        elif out_kind == "gzip-file":
            out = gzip.open(path, "wb")
        elif out_kind == "socket-makefile":
            import socket  # noqa: PLC0415

            sa, sb = socket.socketpair()
            sb.setsockopt(socket.SOL_SOCKET, socket.SO_RCVBUF, 1 << 18)      # the workload is far smaller: the writer never blocks
            out = sa.makefile("wb", buffering=16)
        else:
            out = io.BytesIO()
        data_in = _input(p, stmts, integ)
        entry = p["entry"]
        write = (impl.write_delimited if p["delimited"] else impl.write_single)
        if entry in ("stream_frames", "flat_to_frames"):
            if entry == "stream_frames":
                frames = mod.stream_frames(impl.make_stream(cfg, options), data_in)
            else:
                frames = mod.flat_stream_to_frames(data_in, options) if options is not None else mod.flat_stream_to_frames(data_in)
            if out_kind == "frames-collected-then-written":
                frames = list(frames)
            for fr in frames:
                write(fr, out)
        elif entry == "flat_to_file":
            if options is not None:
                mod.flat_stream_to_file(data_in, out, options)
            else:
                mod.flat_stream_to_file(data_in, out)
        elif entry == "grouped_to_file":
            if options is not None:
                mod.grouped_stream_to_file((x for x in [data_in]), out, options=options)
            else:
                mod.grouped_stream_to_file((x for x in [data_in]), out)
        else:
            if integ == "generic":
                data_in.serialize(out)
            else:
                kw = {} if options is None else {"options": options, "stream": impl.make_stream(cfg, options)}
                data_in.serialize(destination=out, format="jelly", **kw)
        if out_kind == "file":
            out.close()
            with open(path, "rb") as f:
                got = f.read()
            os.unlink(path)
        elif out_kind == "buffered-writer":
            out.flush()
            got = raw.getvalue()
        elif out_kind == "gzip-file":
            out.close()
            with gzip.open(path, "rb") as f:
                got = f.read()
            os.unlink(path)
        elif out_kind == "socket-makefile":
            out.close()
            sa.close()
            chunks = []
            while True:
                c = sb.recv(65536)
                if not c:
                    break
                chunks.append(c)
            sb.close()
            got = b"".join(chunks)
        else:
            got = out.getvalue()
        return "ok", got
    except Exception as ex:  # noqa: BLE001
        return "raised", f"{type(ex).__name__}: {str(ex)[:120]}"


# ----------------------------------------------------------------------------
# the lattices as checks


def _lattice(which: str):
    import json  # noqa: PLC0415

    from . import tlc  # noqa: PLC0415

    r = tlc.run("PyUsage", f"SPECIFICATION Spec\nINVARIANT Print{which}\nINVARIANT Sizes\nCHECK_DEADLOCK FALSE\n", workers=1, timeout=300)
    pts = [json.loads(x) for x in r.printed(which.upper())]
    if not r.ok or len(pts) < 500:
        env.machinery_failure(f"PyUsage: {which} lattice not enumerated ({len(pts)} points): {r.errors[:2]}")
    return pts, r


def _workload(kind: str):
    I = lambda x: ("iri", x)  # noqa: E731
    if kind == "triples":
        return [(I(f"http://e/s{i % 3}"), I(f"http://e/p{i % 2}"), (("lit", str(i), "", "http://dt/x") if i % 3 == 0 else I(f"http://f/o{i}"))) for i in range(8)]
    return [(I(f"http://e/s{i % 3}"), I(f"http://e/p{i % 2}"), ("lit", str(i), "en", ""), (I(f"http://g/{i % 2}") if i % 4 else ("dg",))) for i in range(8)]


def read_lattice(run) -> dict:
    """Every point of PyUsage.ReadLattice on one stream per (integration, kind, delimited): same statements as the plain call."""
    pts, r = _lattice("Read")
    wd = env.workdir()
    base: dict = {}
    n = 0
    for p in pts:
        k = (p["integ"], p["kind"], p["delimited"])
        if k not in base:
            cfg = impl.default_cfg(integ="generic", entry="stream_frames", sclass={"triples": "triple", "quads": "quad", "graphs": "graph"}[p["kind"]],
                                   ltype=(1 if p["kind"] == "triples" else 2), delimited=p["delimited"], frame_size=(3 if p["delimited"] else 250),
                                   preset=(16, 4, 2), gen=False, star=False, as_sink=False)
            data = impl.serialize(cfg, _workload(p["kind"]))
            st, val = run_read(dict(p, entry="flat", source="bytesio", factory="default"), data, wd)
            if st != "ok":
                run.violation({"clause": "usage:plain-call-raised", "integ": p["integ"], "kind": p["kind"]}, val, {"point": p})
                base[k] = None
                continue
            base[k] = (data, shape("flat", val))
        if base[k] is None:
            continue
        data, want = base[k]
        st, val = run_read(p, data, wd)
        n += 1
        key = {"clause": "usage:" + ("raised" if st != "ok" else "differs"), "integ": p["integ"], "entry": p["entry"], "source": p["source"], "factory": p["factory"]}
        if st != "ok":
            run.violation(key, f"{p['entry']} from {p['source']} ({p['kind']}, {'delimited' if p['delimited'] else 'single frame'}): {val}; the plain call parses it", {"point": p, "hex": data.hex()})
        elif shape(p["entry"], val) != want:
            run.violation(key, f"{p['entry']} from {p['source']} ({p['kind']}): {len(val)} items, not the statements the plain call returns", {"point": p, "hex": data.hex()})
    return {"read_lattice_points": len(pts), "read_lattice_parses": n, "tlc_states": r.distinct}


def write_lattice(run, integ: str) -> dict:
    """Every point of PyUsage.WriteLattice of one integration: promised points must write; whatever is written must be valid (TLC) and hold the input."""
    from . import tlc, wire  # noqa: PLC0415

    pts, r = _lattice("Write")
    pts = [p for p in pts if p["integ"] == integ]
    wd = env.workdir()
    traces, meta = [], []
    refused = 0
    for p in pts:
        stmts = _workload(p["kind"])
        st, val = run_write(p, stmts, wd)
        key = {"integ": integ, "entry": p["entry"], "input": p["input"], "options": p["options"], "output": p["output"], "kind": p["kind"], "delimited": p["delimited"]}
        if st != "ok":
            refused += 1
            if p["promised"]:
                run.violation(dict(key, clause="usage:serializer-raised"), f"a documented way of calling the serializer raised: {val}", {"point": p})
            continue
        want = [x if p["kind"] != "triples" else x[:3] for x in stmts]
        if p["input"] == "container" and integ == "rdflib":
            want = list(dict.fromkeys(want))
        try:
            frames = wire.dec_stream(val, delimited=p["delimited"]) if val else []
        except wire.WireError as ex:
            run.violation(dict(key, clause="usage:output-undecodable"), str(ex), {"point": p})
            continue
        ordered = not (p["input"] == "container" and integ == "rdflib") and p["kind"] != "graphs"
        traces.append({"id": len(meta), "rows": terms.jrows_of_frames(frames), "mode": ("seq" if ordered else "set"),
                       "exp": [terms.jitem(terms.norm_item(x)) for x in want]})
        meta.append((p, key))
    verdicts = tlc.judge(traces) if traces else {"__stats__": {}}
    verdicts.pop("__stats__")
    for i, (p, key) in enumerate(meta):
        v = verdicts[i]
        if v["verdict"] != "ok":
            run.violation(dict(key, clause="usage:" + v["verdict"]), f"written this way, the bytes are not a valid stream holding the input: {v['verdict']} at row {v['at']}", {"point": p})
    return {"write_lattice_points": len(pts), "refused": refused, "judged_by_tlc": len(meta)}
