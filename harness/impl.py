"""
Drivers for the REAL pyjelly entry points (everything here runs the code under /repo).

A serializer configuration is a dict:
  integ      "generic" | "rdflib"
  entry      generic: stream_frames | flat_to_file | grouped_to_file | sink_serialize | stepwise
             rdflib : graph_serialize | stream_frames | flat_to_file | grouped_to_file
  sclass     "triple" | "quad" | "graph"      (explicit Stream class; ignored by *_to_file / sink entries)
  ltype      LogicalStreamType int (0 = unspecified)
  delimited  bool
  frame_size int
  flow       None (inferred) | "manual" | "bounded" | "flat_triples" | "flat_quads" | "graphs" | "datasets"
  preset     (max_names, max_prefixes, max_datatypes)
  gen, star, nsdecl : bools ; name : str
"""
from __future__ import annotations

import io

from . import env, terms

env.import_pyjelly()

import logging  # noqa: E402

logging.getLogger("rdflib").setLevel(logging.CRITICAL)     # rdflib warns about odd IRIs on purpose-built inputs

from pyjelly import jelly  # noqa: E402
from pyjelly.options import LookupPreset, StreamParameters  # noqa: E402
from pyjelly.serialize import flows as _flows  # noqa: E402
from pyjelly.serialize.ioutils import write_delimited, write_single  # noqa: E402
from pyjelly.serialize.streams import GraphStream, QuadStream, SerializerOptions, TripleStream  # noqa: E402

SCLASS = {"triple": TripleStream, "quad": QuadStream, "graph": GraphStream}
FLOWS = {
    "manual": _flows.ManualFrameFlow,
    "bounded": _flows.BoundedFrameFlow,
    "flat_triples": _flows.FlatTriplesFrameFlow,
    "flat_quads": _flows.FlatQuadsFrameFlow,
    "graphs": _flows.GraphsFrameFlow,
    "datasets": _flows.DatasetsFrameFlow,
}
LT_NAMES = {0: "UNSPECIFIED", 1: "FLAT_TRIPLES", 2: "FLAT_QUADS", 3: "GRAPHS", 4: "DATASETS",
            13: "SUBJECT_GRAPHS", 14: "NAMED_GRAPHS", 114: "TIMESTAMPED_NAMED_GRAPHS"}


def default_cfg(**kw) -> dict:
    cfg = {"integ": "generic", "entry": "stream_frames", "sclass": "triple", "ltype": 1, "delimited": True,
           "frame_size": 250, "flow": None, "preset": (4000, 150, 32), "gen": True, "star": True,
           "nsdecl": False, "name": ""}
    cfg.update(kw)
    return cfg


def make_flow(cfg):
    if cfg.get("flow") is None:
        return None
    cls = FLOWS[cfg["flow"]]
    kw = {}
    if issubclass(cls, _flows.BoundedFrameFlow):
        kw["frame_size"] = cfg["frame_size"]
    if cfg.get("flow_ltype") is not None:
        kw["logical_type"] = cfg["flow_ltype"]
    return cls(**kw)


def make_options(cfg) -> SerializerOptions:
    mn, mp, md = cfg["preset"]
    return SerializerOptions(
        flow=make_flow(cfg),
        frame_size=cfg.get("options_frame_size", cfg["frame_size"]),     # (an explicit flow object carries its own frame size)
        logical_type=cfg["ltype"],
        params=StreamParameters(generalized_statements=cfg["gen"], rdf_star=cfg["star"], delimited=cfg["delimited"],
                                namespace_declarations=cfg["nsdecl"], stream_name=cfg.get("name", ""),
                                **({"version": cfg["version"]} if cfg.get("version") is not None else {})),
        lookup_preset=LookupPreset(max_names=mn, max_prefixes=mp, max_datatypes=md),
    )


def make_stream(cfg, options=None):
    options = options or make_options(cfg)
    cls = SCLASS[cfg["sclass"]]
    if cfg["integ"] == "rdflib":
        return cls.for_rdflib(options)
    from pyjelly.integrations.generic.serialize import GenericSinkTermEncoder  # noqa: PLC0415

    return cls(encoder=GenericSinkTermEncoder(lookup_preset=options.lookup_preset), options=options)


def _write_frames(frames, out, delimited: bool) -> int:
    n = 0
    for fr in frames:
        (write_delimited if delimited else write_single)(fr, out)
        n += 1
    return n


# ----------------------------------------------------------------------------
# generic integration


def generic_sink(stmts, namespaces=(), identifier=None):
    gs = terms.generic_classes()
    sink = gs.GenericStatementSink() if identifier is None else gs.GenericStatementSink(identifier=identifier)
    for name, iri in namespaces:
        sink.bind(name, gs.IRI(iri))
    for st in stmts:
        sink.add(terms.stmt_to_generic(st))
    return sink


def ser_generic(cfg, stmts, namespaces=(), info: dict | None = None) -> bytes:
    """Serialize abstract statements through a generic-integration entry point; returns the bytes written."""
    from pyjelly.integrations.generic import serialize as gser  # noqa: PLC0415

    out = io.BytesIO()
    entry = cfg["entry"]
    info = info if info is not None else {}
    if entry == "stream_frames":
        stream = make_stream(cfg)
        info["stream"] = stream
        data = generic_sink(stmts, namespaces) if cfg.get("as_sink", True) else (terms.stmt_to_generic(s) for s in stmts)
        info["frames"] = _write_frames(gser.stream_frames(stream, data), out, cfg["delimited"])
    elif entry == "flat_to_file":
        gen = (terms.stmt_to_generic(s) for s in stmts)
        if cfg.get("guess"):
            gser.flat_stream_to_file(gen, out)
        else:
            gser.flat_stream_to_file(gen, out, make_options(cfg))
    elif entry == "grouped_to_file":
        groups = cfg.get("groups") or [stmts]
        sinks = (generic_sink(g, namespaces) for g in groups)
        if cfg.get("guess"):
            gser.grouped_stream_to_file(sinks, out)
        else:
            gser.grouped_stream_to_file(sinks, out, options=make_options(cfg))
    elif entry == "sink_serialize":
        generic_sink(stmts, namespaces).serialize(out)
    elif entry == "stepwise":
        stream = make_stream(cfg)
        info["stream"] = stream
        stream.enroll()
        frames = []
        for st in stmts:
            tt = [terms.to_generic(t) for t in st]
            fr = stream.quad(tt) if cfg["sclass"] == "quad" else stream.triple(tt)
            if fr:
                frames.append(fr)
        last = stream.flow.to_stream_frame()
        if last:
            frames.append(last)
        info["frames"] = _write_frames(frames, out, cfg["delimited"])
    else:
        raise ValueError(entry)
    return out.getvalue()


def parse_generic(data: bytes | io.IOBase, entry: str = "flat", **kw):
    """flat -> [items]; grouped -> [[items per frame]]; to_graph -> [items] (namespaces first... as the sink holds them)."""
    from pyjelly.integrations.generic import parse as gp  # noqa: PLC0415

    inp = io.BytesIO(data) if isinstance(data, (bytes, bytearray)) else data
    if entry == "flat":
        return [terms.item_from_generic(x) for x in gp.parse_jelly_flat(inp, **kw)]
    if entry == "grouped":
        res = []
        for sink in gp.parse_jelly_grouped(inp, **kw):
            res.append([("ns", p, terms.item_from_generic(gp.Prefix(p, i))[2]) for p, i in sink.namespaces]
                       + [terms.item_from_generic(x) for x in sink])
        return res
    if entry == "to_graph":
        sink = gp.parse_jelly_to_graph(inp)
        return ([terms.item_from_generic(gp.Prefix(p, i)) for p, i in sink.namespaces]
                + [terms.item_from_generic(x) for x in sink])
    if entry == "sink_parse":
        gs = terms.generic_classes()
        sink = gs.GenericStatementSink()
        sink.parse(inp)
        return ([terms.item_from_generic(gp.Prefix(p, i)) for p, i in sink.namespaces]
                + [terms.item_from_generic(x) for x in sink])
    raise ValueError(entry)


# ----------------------------------------------------------------------------
# rdflib integration


def rdflib_container(stmts, namespaces=(), *, dataset: bool):
    import rdflib  # noqa: PLC0415
    from rdflib.graph import Dataset, Graph  # noqa: PLC0415

    if dataset:
        ds = Dataset()
        for name, iri in namespaces:
            ds.bind(name, rdflib.URIRef(iri))
        for st in stmts:
            s, p, o = (terms.to_rdflib(t) for t in st[:3])
            g = st[3] if len(st) == 4 else ("dg",)
            ctx = ds.default_context if g == ("dg",) else ds.get_context(terms.to_rdflib(g))
            ctx.add((s, p, o))
        return ds
    g = Graph()
    for name, iri in namespaces:
        g.bind(name, rdflib.URIRef(iri))
    for st in stmts:
        g.add(tuple(terms.to_rdflib(t) for t in st[:3]))
    return g


def rdflib_statement(st):
    from pyjelly.integrations.rdflib.parse import Quad, Triple  # noqa: PLC0415

    tt = [terms.to_rdflib(t) for t in st]
    if len(tt) == 4 and st[3] == ("dg",):
        # a default-graph identifier as user code builds it (or as it comes out of pickle / deepcopy): EQUAL to rdflib's constant, not the same object
        import rdflib  # noqa: PLC0415

        tt[3] = rdflib.URIRef(str(tt[3]))
    return Triple(*tt) if len(tt) == 3 else Quad(*tt)


def ser_rdflib(cfg, stmts, namespaces=(), info: dict | None = None) -> bytes:
    from pyjelly.integrations.rdflib import serialize as rser  # noqa: PLC0415

    out = io.BytesIO()
    entry = cfg["entry"]
    info = info if info is not None else {}
    is_ds = any(len(s) == 4 for s in stmts) or cfg.get("dataset", False)
    if entry == "graph_serialize":
        store = rdflib_container(stmts, namespaces, dataset=is_ds)
        kw = {}
        if not cfg.get("guess"):
            kw["options"] = make_options(cfg)
            if cfg.get("explicit_stream", True):
                kw["stream"] = make_stream(cfg, kw["options"])
                info["stream"] = kw["stream"]
        store.serialize(destination=out, format="jelly", **kw)
    elif entry == "stream_frames":
        stream = make_stream(cfg)
        info["stream"] = stream
        data = (rdflib_container(stmts, namespaces, dataset=is_ds) if cfg.get("as_sink", True)
                else (rdflib_statement(s) for s in stmts))
        info["frames"] = _write_frames(rser.stream_frames(stream, data), out, cfg["delimited"])
    elif entry == "flat_to_file":
        # plain_tuples: statements as ordinary 3-/4-tuples of rdflib terms (what Graph.triples() / hand-written code yields) instead of Triple / Quad objects
        gen = ((tuple(rdflib_statement(s)) if cfg.get("plain_tuples") else rdflib_statement(s)) for s in stmts)
        if cfg.get("guess"):
            rser.flat_stream_to_file(gen, out)
        else:
            rser.flat_stream_to_file(gen, out, make_options(cfg))
    elif entry == "grouped_to_file":
        groups = cfg.get("groups") or [stmts]
        sinks = (rdflib_container(g, namespaces, dataset=is_ds) for g in groups)
        if cfg.get("guess"):
            rser.grouped_stream_to_file(sinks, out)
        else:
            rser.grouped_stream_to_file(sinks, out, options=make_options(cfg))
    else:
        raise ValueError(entry)
    return out.getvalue()


def _items_of_rdflib_store(store):
    from rdflib.graph import Dataset  # noqa: PLC0415

    if isinstance(store, Dataset):
        return [(terms.from_rdflib(s), terms.from_rdflib(p), terms.from_rdflib(o), terms.from_rdflib(g, graph_position=True))
                for s, p, o, g in store.quads()]
    return [tuple(terms.from_rdflib(t) for t in tr) for tr in store]


def parse_rdflib(data: bytes | io.IOBase, entry: str = "flat", **kw):
    from pyjelly.integrations.rdflib import parse as rp  # noqa: PLC0415

    inp = io.BytesIO(data) if isinstance(data, (bytes, bytearray)) else data
    if entry == "flat":
        return [terms.item_from_rdflib(x) for x in rp.parse_jelly_flat(inp, **kw)]
    if entry == "grouped":
        return [_items_of_rdflib_store(g) for g in rp.parse_jelly_grouped(inp, **kw)]
    if entry == "to_graph":
        return _items_of_rdflib_store(rp.parse_jelly_to_graph(inp))
    if entry == "graph_parse":
        from rdflib.graph import Dataset, Graph  # noqa: PLC0415

        store = Dataset() if kw.get("dataset") else Graph()
        store.parse(inp, format="jelly")
        return _items_of_rdflib_store(store)
    raise ValueError(entry)


def other_sources(data: bytes):
    """The same bytes as the parser may be handed them other than from a fresh BytesIO: a seekable stream positioned behind a preamble, and a
    non-seekable source whose first reads return one byte each (how the bytes ARRIVE is not part of what a stream denotes)."""
    from .framing import ChunkedRaw  # noqa: PLC0415

    pre = io.BytesIO(b"PREAMBL" + data)
    pre.seek(7)
    return [("seekable-at-offset-7", pre), ("pipe-1-1-1-then-64", ChunkedRaw(data, [1, 1, 1], then=64))]


def serialize(cfg, stmts, namespaces=(), info=None) -> bytes:
    return (ser_rdflib if cfg["integ"] == "rdflib" else ser_generic)(cfg, stmts, namespaces, info)


def parse(integ: str, data, entry="flat", **kw):
    return (parse_rdflib if integ == "rdflib" else parse_generic)(data, entry, **kw)


def ptype_of(cfg) -> int:
    return {"triple": jelly.PHYSICAL_STREAM_TYPE_TRIPLES, "quad": jelly.PHYSICAL_STREAM_TYPE_QUADS,
            "graph": jelly.PHYSICAL_STREAM_TYPE_GRAPHS}[cfg["sclass"]]
