"""
PyWriter behaviours: getting them out of TLC and replaying them into the real serializer.

A behaviour is the `hist` of spec/PyWriter.tla: a list of ops
  {"op":"stmt","st":[term...],"rows":[...]}   {"op":"reject","st":[terms up to the refused one]}
  {"op":"gs","g":term,"rows":[...]}  {"op":"ge","rows":[...]}  {"op":"ns","ns":[label,p,n],"rows":[...]}
with model terms ["iri",p,n] ["bn",b] ["lit",lex,lang,dt] ["dg"] ["qt",s,p,o] ["bad"].
`rows` is what the MODEL says reaches the frame flow for that op.
"""
from __future__ import annotations

import json
import os
import random

from . import env, impl, terms, tlc, wire

XSD = terms.XSD_STRING


# ----------------------------------------------------------------------------
# TLC side


def cfg_text(consts: dict, invariants=(), spec="Spec", view=None, extra="") -> str:
    lines = [f"SPECIFICATION {spec}", "CONSTANTS"]
    for k, v in consts.items():
        if isinstance(v, bool):
            lines.append(f" {k} = {'TRUE' if v else 'FALSE'}")
        elif isinstance(v, int):
            lines.append(f" {k} = {v}")
        else:
            lines.append(f" {k} <- {v}")
    for inv in invariants:
        lines.append(f"INVARIANT {inv}")
    if view:
        lines.append(f"VIEW {view}")
    if extra:
        lines.append(extra)
    lines.append("CHECK_DEADLOCK FALSE")
    return "\n".join(lines) + "\n"


BASE = {"MaxN": 8, "MaxP": 0, "MaxD": 0, "PType": 1, "PoolS": "Empty", "PoolP": "Empty", "PoolO": "Empty",
        "PoolG": "Empty", "NsPool": "Empty", "NsDecl": False, "FrameSize": 0, "CheckFits": True,
        "AllowReject": False, "HistLen": 0, "PoisonOnReject": True}


def consts(**kw) -> dict:
    c = dict(BASE)
    c.update(kw)
    return c


def model_check(c: dict, invariants=("Good", "TablesBounded", "Mirrored"), *, timeout=600, workers="auto",
                coverage=False, module="MCWriter"):
    return tlc.run(module, cfg_text(c, invariants), timeout=timeout, workers=workers, coverage=coverage)


def simulate(c: dict, *, num: int, hist_len: int, seed: int, timeout=300, module="MCWriter", invariants=("PrintHist",)):
    """Random behaviours of the model, each with exactly hist_len ops (statements, graph brackets, ...)."""
    c = dict(c)
    c["HistLen"] = hist_len
    depth = hist_len * 6 + 10
    r = tlc.run(module, cfg_text(c, invariants), workers=1, timeout=timeout,
                args=["-deadlock", "-simulate", f"num={num}", "-depth", str(depth), "-seed", str(seed)])
    behs = []
    for payload in r.printed("BEHAVIOUR"):
        try:
            behs.append(json.loads(payload))
        except json.JSONDecodeError:
            env.machinery_failure("unparsable BEHAVIOUR line from TLC: " + payload[:200])
    if not behs:
        env.machinery_failure("TLC simulation produced no behaviours:\n" + "\n".join(r.out.splitlines()[-25:]))
    return behs, r


# ----------------------------------------------------------------------------
# substitutions: abstract atoms -> concrete strings (concatenation structure preserved)


class Subst:
    """Maps model atoms to concrete strings; identity by default.

    prefix atoms end with '/' or '#' or are empty, name atoms contain neither, so that
    pyjelly's split_iri(prefix + name) == (prefix, name) also after substitution.
    """

    def __init__(self, pfx=None, name=None, other=None, label="identity"):
        self.pfx = pfx or {}
        self.name = name or {}
        self.other = other or {}
        self.label = label

    def p(self, s):
        return self.pfx.get(s, s)

    def n(self, s):
        return self.name.get(s, s)

    def o(self, s):
        return self.other.get(s, s)

    def iri(self, p, n):
        return self.p(p) + self.n(n)

    def any(self, s, universe_pfx=()):
        """A string as it appears in an entry row of the model: prefix atom, name atom, or prefix+name."""
        if s in self.pfx:
            return self.pfx[s]
        if s in self.name:
            return self.name[s]
        if s in self.other:
            return self.other[s]
        for p in sorted(set(self.pfx) | set(universe_pfx), key=len, reverse=True):
            if p and s.startswith(p):
                return self.p(p) + self.n(s[len(p):])
        return s


def substitutions(seed: int) -> list[Subst]:
    rnd = random.Random(seed)
    pfx_real = {"a/": "http://example.org/ns1/", "b#": "http://www.w3.org/1999/02/22-rdf-syntax-ns#",
                "b/": "https://b.example/path/to/", "c/": "urn:x:/", "d#": "http://d.example/vocab#", "": ""}
    name_real = {f"n{i}": f"localName{i}" for i in range(30)}
    name_real.update({"w": "Widget", "x": "type", "y": "label", "z": "Zed"})
    pfx_uni = {"a/": "http://ex.org/\u00fc\u00f1\u00ee/", "b#": "http://ex.org/\u65e5\u672c\u8a9e#", "b/": "http://ex.org/\U0001F600/",
               "c/": "/", "d#": "#", "": ""}
    name_uni = {f"n{i}": f"\u540d\u524d{i}" for i in range(30)}
    name_uni.update({"w": "w w", "x": "\u1e8b", "y": "\"q\"\\", "z": "\u00e9~;", "n0": "~41;", "n1": "\x7f\x01"})
    other_uni = {"l": "l\u00e9x \"quoted\"\n", "1": "", "b1": "b\u00f61", "g": "g:~1;", "en": "en-GB", "l2": "\U0001F600"}
    # string CONTENT that small universes never contain by chance: '/' and several '#' in one prefix, a bare trailing '#', a BOM, strings longer than
    # 127 and 16383 bytes (varint width of the length prefix), NUL, characters outside the BMP, numeric-looking forms, odd language tags
    pfx_odd = {"a/": "http://ex.org/a/b#c#", "b#": "http://ex.org/x/#", "b/": "\ufeffhttp://bom.example/" + "p" * 150 + "/", "c/": "c:/", "d#": "//#", "": ""}
    name_odd = {f"n{i}": f"{i:05d}" for i in range(30)}
    name_odd.update({"w": "\x00nul", "x": "x" * 300, "y": "\U0001d518\U0001d52b\U0001d526", "z": "z" * 17000, "n0": "1e3", "n1": "true", "n2": " leading space"})
    other_odd = {"l": "007", "1": "1e3", "l2": "L" * 20000, "b1": "b" * 200, "g": "\u00fc", "en": "EN-gb-x-private", "s": " "}
    subs = [Subst(), Subst(pfx_real, name_real, {}, "realistic"), Subst(pfx_uni, name_uni, other_uni, "unicode"),
            Subst(pfx_odd, name_odd, other_odd, "odd-content")]
    rnd.shuffle(subs)
    return subs


# ----------------------------------------------------------------------------
# model terms -> abstract terms


class Unsupported:
    """A term of a type no encoder supports (rejection cause 'unsupported term type')."""

    def __repr__(self):
        return "Unsupported()"


def abs_term(t, sub: Subst):
    k = t[0]
    if k == "iri":
        return ("iri", sub.iri(t[1], t[2]))
    if k == "bn":
        return ("bn", sub.o(t[1]))
    if k == "lit":
        return ("lit", sub.o(t[1]), sub.o(t[2]), sub.o(t[3]))
    if k == "dg":
        return ("dg",)
    if k == "qt":
        return ("qt", abs_term(t[1], sub), abs_term(t[2], sub), abs_term(t[3], sub))
    if k in ("bad", "end"):
        return (k,)
    raise ValueError(t)


def subst_rows(rows, sub: Subst, pfx_atoms=()):
    """Apply the substitution to the strings of the MODEL's predicted rows."""
    def term(w):
        w = dict(w)
        if w["t"] == "bn":
            w["v"] = sub.o(w["v"])
        elif w["t"] == "lit":
            w["lex"] = sub.o(w["lex"])
            if "lang" in w:
                w["lang"] = sub.o(w["lang"])
        elif w["t"] == "qt":
            for sl in "spo":
                w[sl] = term(w[sl])
        return w

    out = []
    for r in rows:
        r = dict(r)
        if r["r"] in ("pfx", "name"):
            r["v"] = sub.any(r["v"], pfx_atoms)
        elif r["r"] == "dt":
            r["v"] = sub.o(r["v"])
        elif r["r"] == "ns":
            r["name"] = sub.o(r["name"])
        for sl in "spog":
            if sl in r:
                r[sl] = term(r[sl])
        out.append(r)
    return out


def to_impl_term(t, integ: str):
    """abstract term -> object of the integration (or an unsupported object)."""
    if t == ("bad",):
        return Unsupported()
    if t[0] == "qt" and integ == "generic":
        gs = terms.generic_classes()
        return gs.Triple(*(to_impl_term(x, integ) for x in t[1:]))
    return terms.to_generic(t) if integ == "generic" else terms.to_rdflib(t)


# ----------------------------------------------------------------------------
# replay into the real Stream, op by op


def _row_dicts(pb_rows) -> list[dict]:
    return [wire.dec_row(r.SerializeToString(deterministic=True)) for r in pb_rows]


def norm_row(r: dict) -> dict:
    """Model rows and wire rows in one canonical shape for comparison."""
    r = json.loads(json.dumps(r))
    if r.get("r") in ("name", "pfx", "dt"):
        r.setdefault("id", 0)
    return r


def replay_stepwise(beh: dict, c: dict, sub: Subst, *, integ="generic", delimited=True, frame_size=None,
                    stop_on_reject=False):
    """Drive a real Stream through the ops of a behaviour.

    Returns dict(bytes, frames_rows, per_op_rows, accepted (abstract statements in order), namespaces,
                 rejected (list of (op index, exception class name)), refused_after_reject: bool)
    """
    ptype = c["PType"]
    sclass = {1: "triple", 2: "quad", 3: "graph"}[ptype]
    fs = frame_size if frame_size is not None else (c["FrameSize"] or 10**6)
    cfg = impl.default_cfg(integ=integ, sclass=sclass, ltype=(1 if ptype == 1 else 2), delimited=delimited,
                           frame_size=fs, preset=(c["MaxN"], c["MaxP"], c["MaxD"]), nsdecl=bool(c.get("NsDecl")),
                           gen=True, star=True)
    stream = impl.make_stream(cfg)
    emitted_frames: list = []
    all_rows_seen = 0
    per_op: list = []
    accepted: list = []
    nss: list = []
    rejected: list = []

    def total_rows():
        rows = []
        for fr in emitted_frames:
            rows.extend(fr.rows)
        rows.extend(stream.flow)
        return rows

    def checkpoint():
        nonlocal all_rows_seen
        rows = total_rows()
        new = _row_dicts(rows[all_rows_seen:])
        all_rows_seen = len(rows)
        return new

    stream.enroll()
    checkpoint()  # options row
    ops = beh["hist"]
    i = 0
    while i < len(ops):
        op = ops[i]
        kind = op["op"]
        if kind == "ns":
            label, p, n = op["ns"]
            try:
                stream.namespace_declaration(sub.o(label), sub.iri(p, n))
                nss.append(("ns", sub.o(label), sub.iri(p, n)))
                accepted.append(("ns", sub.o(label), sub.iri(p, n)))
            except Exception as ex:  # noqa: BLE001
                rejected.append((i, type(ex).__name__ + ": " + str(ex)[:80]))
                if stop_on_reject:
                    per_op.append(checkpoint())
                    break
            per_op.append(checkpoint())
            i += 1
        elif kind in ("stmt", "reject") and ptype != 3:
            st = [abs_term(t, sub) for t in op["st"]]
            if ("end",) in st:                      # malformed tuple: it simply ends early
                st = st[:st.index(("end",))]
            tt = [to_impl_term(t, integ) for t in st]
            try:
                fr = stream.quad(tt) if ptype == 2 else stream.triple(tt)
                if fr:
                    emitted_frames.append(fr)
                accepted.append(tuple(st))
                if kind == "reject":
                    rejected.append((i, "<<accepted>>"))
            except Exception as ex:  # noqa: BLE001
                rejected.append((i, type(ex).__name__))
                if stop_on_reject:
                    per_op.append(checkpoint())
                    break
            per_op.append(checkpoint())
            i += 1
        elif kind == "gs":
            # GraphStream.graph(graph_id, triples): one call per gs ... ge bracket of the model;
            # the rows of each op are captured when the generator comes back for the next triple.
            g = abs_term(op["g"], sub)
            j = i + 1
            body = []
            while j < len(ops) and ops[j]["op"] == "stmt":
                body.append(j)
                j += 1
            captured: list = []

            def feed(body=body, g=g, captured=captured):
                for bj in body:
                    captured.append(checkpoint())      # rows of the previous op (gs or stmt)
                    st = [abs_term(t, sub) for t in ops[bj]["st"]]
                    accepted.append(tuple(st) + (g,))
                    yield [to_impl_term(t, integ) for t in st]
                captured.append(checkpoint())

            try:
                for fr in stream.graph(to_impl_term(g, integ), feed()):
                    emitted_frames.append(fr)
            except Exception as ex:  # noqa: BLE001
                rejected.append((i, type(ex).__name__))
            ge_rows = checkpoint()
            per_op.extend(captured)
            while len(per_op) < j:
                per_op.append([])
            if j < len(ops) and ops[j]["op"] == "ge":
                per_op.append(ge_rows)
                j += 1
            i = j
        else:
            raise ValueError(f"unexpected op {kind} at {i} for ptype {ptype}")
    last = stream.flow.to_stream_frame()
    if last:
        emitted_frames.append(last)
    import io  # noqa: PLC0415

    out = io.BytesIO()
    for fr in emitted_frames:
        (impl.write_delimited if delimited else impl.write_single)(fr, out)
    return {"bytes": out.getvalue(), "per_op": per_op, "accepted": accepted, "rejected": rejected,
            "nframes": len(emitted_frames), "cfg": cfg, "stream": stream}


def compare_rows(beh, per_op, sub: Subst, pfx_atoms=()):
    """Tier-2 drift: the model's predicted rows per op vs. the rows the real flow received."""
    for i, op in enumerate(beh["hist"]):
        want = [norm_row(r) for r in subst_rows(op.get("rows", []), sub, pfx_atoms)]
        have = [norm_row(r) for r in (per_op[i] if i < len(per_op) else [])]
        if want != have:
            return i, want, have
    return None
