"""./check <property> [--tier quick|thorough]"""
from __future__ import annotations

import argparse
import importlib
import os
import sys
import traceback


def main() -> None:
    ap = argparse.ArgumentParser()
    ap.add_argument("property")
    ap.add_argument("--tier", default=os.environ.get("VERIF_TIER", "quick"), choices=["quick", "thorough"])
    ap.add_argument("--replay")
    a = ap.parse_args()
    os.environ["VERIF_TIER"] = a.tier
    pid = a.property.upper()
    try:
        mod = importlib.import_module(f"harness.drivers.{pid.lower()}")
    except ModuleNotFoundError as ex:
        print(f"MACHINERY-FAILURE: no driver for {pid}: {ex}")
        sys.exit(2)
    try:
        if a.replay:
            rc = mod.replay(a.replay)
        else:
            rc = mod.main(a.tier)
    except SystemExit:
        raise
    except BaseException:  # noqa: BLE001
        traceback.print_exc()
        print(f"MACHINERY-FAILURE: driver for {pid} crashed")
        sys.exit(2)
    sys.stdout.flush()
    sys.exit(rc)


if __name__ == "__main__":
    main()
