"""./check <property> [--tier quick|thorough]"""
from __future__ import annotations

import argparse
import importlib
import os
import sys
import traceback


def main() -> None:
    ap = argparse.ArgumentParser()
    ap.add_argument("property")
    ap.add_argument("--tier", default=os.environ.get("VERIF_TIER", "quick"), choices=["quick", "thorough"])
    ap.add_argument("--replay")
    a = ap.parse_args()
    os.environ["VERIF_TIER"] = a.tier
    pid = a.property.upper()
    try:
        mod = importlib.import_module(f"harness.drivers.{pid.lower()}")
    except ModuleNotFoundError as ex:
        print(f"MACHINERY-FAILURE: no driver for {pid}: {ex}")
        sys.exit(2)
    try:
        if a.replay:
            rc = mod.replay(a.replay)
        else:
            rc = mod.main(a.tier)
    except SystemExit:
        raise
    except BaseException as ex:  # noqa: BLE001
        traceback.print_exc()
        # An exception that escapes a driver is a machinery failure -- unless it was RAISED INSIDE pyjelly on an input the driver
        # considers ordinary (every such call that may legitimately raise is guarded in the drivers, and on the unchanged tree none
        # escapes): then the code under test failed where the property says it must work.
        tb = traceback.extract_tb(ex.__traceback__)
        repo = os.path.realpath(os.environ.get("VERIF_REPO", "/repo")) + os.sep + "pyjelly" + os.sep
        if tb and os.path.realpath(tb[-1].filename).startswith(repo) and pid.startswith("C") and not isinstance(ex, (KeyboardInterrupt, MemoryError)):
            import json  # noqa: PLC0415

            d = os.path.join(os.path.dirname(os.path.dirname(os.path.abspath(__file__))), "replays", pid)
            os.makedirs(d, exist_ok=True)
            path = os.path.join(d, "unexpected-exception.json")
            with open(path, "w") as f:
                json.dump({"property": pid, "what": "unexpected exception raised inside pyjelly", "exception": repr(ex),
                           "traceback": traceback.format_exception(type(ex), ex, ex.__traceback__)[-12:]}, f, indent=1)
            print(f"VIOLATION property={pid} replay={path}")
            print(f"  what: pyjelly raised {type(ex).__name__} ({str(ex)[:120]}) at {tb[-1].filename}:{tb[-1].lineno} on an input the check treats as ordinary")
            sys.exit(1)
        print(f"MACHINERY-FAILURE: driver for {pid} crashed")
        sys.exit(2)
    sys.stdout.flush()
    sys.exit(rc)


if __name__ == "__main__":
    main()
