"""Environment: repo path, import guard, seeds, scratch directories."""
from __future__ import annotations

import os
import shutil
import sys
import tempfile

VERIF = os.path.dirname(os.path.dirname(os.path.abspath(__file__)))
REPO = os.environ.get("VERIF_REPO", "/repo")
SPEC = os.path.join(VERIF, "spec")
GUARD = "JELLY_RDF_PYJELLY_VERIF"


def seed() -> int:
    try:
        return int(os.environ.get("VERIF_SEED", "0"))
    except ValueError:
        return 0


def tier(default: str = "quick") -> str:
    t = os.environ.get("VERIF_TIER", default)
    return t if t in ("quick", "thorough") else default


def machinery_failure(msg: str) -> "NoReturn":  # noqa: F821
    print(f"MACHINERY-FAILURE: {msg}", flush=True)
    sys.exit(2)


def import_pyjelly():
    """Make sure the pyjelly that gets imported is the working tree under REPO.

    /venv holds a compiled pyjelly in site-packages which shadows the working
    tree for any script that does not live in /repo.
    """
    os.environ[GUARD] = "1"
    if REPO not in sys.path[:1]:
        sys.path.insert(0, REPO)
    for name in list(sys.modules):
        if name == "pyjelly" or name.startswith("pyjelly."):
            mod = sys.modules[name]
            f = getattr(mod, "__file__", "") or ""
            if not f.startswith(REPO + os.sep):
                del sys.modules[name]
    import pyjelly  # noqa: PLC0415

    f = os.path.realpath(pyjelly.__file__)
    if not f.startswith(os.path.realpath(REPO) + os.sep):
        machinery_failure(f"wrong pyjelly imported: {f} (expected under {REPO})")
    return pyjelly


_WORK = None


def workdir() -> str:
    """Per-process scratch directory (removed at exit)."""
    global _WORK
    if _WORK is None:
        base = os.path.join(VERIF, "work")
        os.makedirs(base, exist_ok=True)
        _WORK = tempfile.mkdtemp(prefix="run-", dir=base)
        import atexit  # noqa: PLC0415

        if not os.environ.get("VERIF_KEEP_WORK"):
            atexit.register(shutil.rmtree, _WORK, ignore_errors=True)
    return _WORK
