"""PyFraming configurations: generated MC modules, and byte sources that deliver short reads."""
from __future__ import annotations

import io
import json

from . import tlc


def mc_module(name: str, frame_lens, chunks) -> str:
    fl = ", ".join(str(x) for x in frame_lens)
    ch = ", ".join(str(x) for x in sorted(chunks))
    return (f"---- MODULE {name} ----\nEXTENDS PyFraming\nFL == <<{fl}>>\nCH == {{{ch}}}\nNoCut == -1\n====\n")


def run_framing(name, *, delimited, frame_lens, first_row_len, cut=None, chunks=(1, 2, 3, 5), peek_once=True, hist_reads=4, read_chunk=4,
                invariants=("HintCorrect", "ChunkingIrrelevant", "ClassifiedRight", "PrefixOnly", "NeverMore", "PrintRun"), timeout=300, workers=4):
    cfg = ["SPECIFICATION Spec", "CONSTANTS",
           f" Delimited = {'TRUE' if delimited else 'FALSE'}", " FrameLens <- FL", f" FirstRowLen = {first_row_len}",
           (" CutAt <- NoCut" if cut is None else f" CutAt = {cut}"), " Chunks <- CH",
           f" PeekOnce = {'TRUE' if peek_once else 'FALSE'}", f" ReadChunk = {read_chunk}", f" HistReads = {hist_reads}"]
    cfg += [f"INVARIANT {i}" for i in invariants]
    cfg.append("CHECK_DEADLOCK FALSE")
    return tlc.run(name, "\n".join(cfg) + "\n", module_text=mc_module(name, frame_lens, chunks), workers=workers, timeout=timeout)


def runs_of(r) -> list[dict]:
    seen, out = set(), []
    for p in r.printed("RUN"):
        if p not in seen:
            seen.add(p)
            out.append(json.loads(p))
    return out


class ChunkedRaw(io.RawIOBase):
    """A non-seekable raw source (socket, pipe, HTTP body) that returns short reads according to a schedule."""

    def __init__(self, data: bytes, schedule, then=None):
        self.data = data
        self.pos = 0
        self.schedule = list(schedule)
        self.then = then            # size of every read after the schedule is used up (None = as much as asked for)
        self.log = []

    def readable(self):
        return True

    def seekable(self):
        return False

    def readinto(self, b):
        want = len(b)
        if self.schedule:
            want = min(want, self.schedule.pop(0))
        elif self.then:
            want = min(want, self.then)
        chunk = self.data[self.pos:self.pos + want]
        self.pos += len(chunk)
        b[:len(chunk)] = chunk
        self.log.append(len(chunk))
        return len(chunk)


class LostLink(ChunkedRaw):
    """A non-seekable source whose producer is lost: when the delivered bytes are used up the read does not return EOF, it RAISES (reset, timeout)."""

    def readinto(self, b):
        if self.pos >= len(self.data):
            raise ConnectionResetError("connection reset by peer")
        return super().readinto(b)


def seekable_sources(data: bytes, workdir: str):
    """Buffered seekable sources as the documented input contract allows them: [(name, opener)].
    The stream may start at a non-zero offset of the underlying file, the buffer may be tiny, the data may straddle the
    buffer boundary, and a gzip file may consist of several members."""
    import gzip  # noqa: PLC0415
    import os  # noqa: PLC0415

    p = os.path.join(workdir, "s.jelly")
    with open(p, "wb") as f:
        f.write(data)
    with gzip.open(p + ".gz", "wb") as f:
        f.write(data)
    with open(p + ".2.gz", "wb") as f:                      # two gzip members: the first holds only the first two bytes of the stream
        f.write(gzip.compress(data[:2]) + gzip.compress(data[2:]))
    pre = b"# some container header\n"
    with open(p + ".pre", "wb") as f:
        f.write(pre + data)
    edge = io.DEFAULT_BUFFER_SIZE - 2
    with open(p + ".edge", "wb") as f:
        f.write(b"x" * edge + data)

    def at(path, off, **kw):
        def opener():
            fh = open(path, "rb", **kw)
            fh.seek(off)
            return fh
        return opener

    def bio_at():
        b = io.BytesIO(pre + data)
        b.seek(len(pre))
        return b

    import tempfile  # noqa: PLC0415

    def named_tmp():                       # a delegating wrapper object, not an io.IOBase instance
        f = tempfile.NamedTemporaryFile(dir=workdir)  # noqa: SIM115
        f.write(data)
        f.seek(0)
        return f

    def spooled(max_size):
        def opener():
            f = tempfile.SpooledTemporaryFile(max_size=max_size, dir=workdir)  # noqa: SIM115
            f.write(data)
            f.seek(0)
            return f
        return opener

    class Duck:
        """A progress-bar style wrapper: read/seek/tell/seekable, context manager, nothing else."""

        def __init__(self):
            self._f = io.BytesIO(data)

        def read(self, n=-1):
            return self._f.read(n)

        def seek(self, *a):
            return self._f.seek(*a)

        def tell(self):
            return self._f.tell()

        def seekable(self):
            return True

        def readable(self):
            return True

        def __enter__(self):
            return self

        def __exit__(self, *a):
            return False

    def buffered_random():
        fh = open(p, "r+b")  # noqa: SIM115
        return fh

    return [("BytesIO", lambda: io.BytesIO(data)), ("BytesIO-at-offset", bio_at),
            ("NamedTemporaryFile", named_tmp), ("SpooledTemporaryFile-in-memory", spooled(10**9)), ("SpooledTemporaryFile-rolled-over", spooled(1)),
            ("duck-typed-wrapper", Duck), ("BufferedRandom", buffered_random),
            ("BufferedReader", at(p, 0)), ("BufferedReader-16", at(p, 0, buffering=16)), ("BufferedReader-2", at(p, 0, buffering=2)),
            ("BufferedReader-at-offset", at(p + ".pre", len(pre))), ("BufferedReader-at-buffer-edge", at(p + ".edge", edge)),
            ("gzip", lambda: gzip.open(p + ".gz", "rb")), ("gzip-two-members", lambda: gzip.open(p + ".2.gz", "rb"))]
