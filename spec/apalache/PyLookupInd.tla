---------------------------- MODULE PyLookupInd ----------------------------
(***************************************************************************)
(* The lookup-table pair of spec/PyLookup.tla in a form Apalache accepts    *)
(* (type annotations, no TLC/Json modules), with an INDUCTIVE invariant:    *)
(*     IndInit => IndInv            (length 0)                              *)
(*     IndInv /\ Next => IndInv'    (length 1)                              *)
(* Checked symbolically for one table size at a time; unlike TLC's          *)
(* exhaustive closure this does not enumerate the reachable states, so it   *)
(* reaches sizes beyond 8 (16, 32).  IndInv implies Resolves (ok), Bounded  *)
(* and Registers of PyLookup.                                               *)
(***************************************************************************)
EXTENDS Integers, Sequences, FiniteSets, Apalache

CONSTANTS
  \* @type: Int;
  Size,
  \* @type: Str;
  Rule

VARIABLES
  \* @type: Seq(Int);
  lru,
  \* @type: Int;
  lastA,
  \* @type: Int;
  lastU,
  \* @type: Int;
  emptyAt,
  \* @type: Int -> Bool;
  sync,
  \* @type: Int;
  rLastA,
  \* @type: Int;
  rLastU,
  \* @type: Str;
  pc,
  \* @type: Int;
  cur,
  \* @type: Bool;
  ok

Idx == 1..Size
\* @type: (Seq(Int)) => Set(Int);
Elems(s) == {s[j] : j \in DOMAIN s}
\* @type: (Seq(Int), Int) => Seq(Int);
ToEnd(s, i) == LET \* @type: (Int) => Bool;
                   Keep(x) == x # i
               IN Append(SelectSeq(s, Keep), i)

Init ==
  /\ lru = <<>> /\ lastA = 0 /\ lastU = 0 /\ emptyAt = 0
  /\ sync = [i \in Idx |-> FALSE]
  /\ rLastA = 0 /\ rLastU = 0
  /\ pc = "idle" /\ cur = 0 /\ ok = TRUE

EntryHit(i) ==
  /\ pc = "idle" /\ i \in Elems(lru)
  /\ lru' = ToEnd(lru, i)
  /\ pc' = "term" /\ cur' = i
  /\ UNCHANGED <<lastA, lastU, emptyAt, sync, rLastA, rLastU, ok>>

EntryMiss(isEmpty) ==
  /\ pc = "idle"
  /\ (isEmpty => Rule = "prefix" /\ emptyAt = 0)
  /\ LET full == Len(lru) = Size
         ix   == IF full THEN Head(lru) ELSE Len(lru) + 1
         eid  == IF ix = lastA + 1 THEN 0 ELSE ix
         rid  == IF eid = 0 THEN rLastA + 1 ELSE eid
     IN /\ lru' = Append(IF full THEN Tail(lru) ELSE lru, ix)
        /\ lastA' = ix
        /\ emptyAt' = IF isEmpty THEN ix ELSE IF emptyAt = ix THEN 0 ELSE emptyAt
        /\ rLastA' = rid
        /\ sync' = IF rid \in Idx
                   THEN [i \in Idx |-> IF i = rid THEN rid = ix ELSE IF i = ix THEN FALSE ELSE sync[i]]
                   ELSE [i \in Idx |-> IF i = ix THEN FALSE ELSE sync[i]]
        /\ ok' = (ok /\ rid \in Idx /\ eid \in 0..Size)
        /\ cur' = ix
  /\ pc' = "term"
  /\ UNCHANGED <<lastU, rLastU>>

Term ==
  /\ pc = "term" /\ pc' = "idle"
  /\ UNCHANGED <<lastA, emptyAt, sync, rLastA, cur>>
  /\ IF Rule = "name"
     THEN LET tid == IF cur = lastU + 1 THEN 0 ELSE cur
              ref == IF tid = 0 THEN rLastU + 1 ELSE tid
          IN /\ lastU' = cur /\ lru' = ToEnd(lru, cur) /\ rLastU' = ref
             /\ ok' = (ok /\ tid \in 0..Size /\ ref = cur /\ sync[cur])
     ELSE IF Rule = "datatype"
     THEN /\ lastU' = cur /\ lru' = ToEnd(lru, cur) /\ rLastU' = cur
          /\ ok' = (ok /\ cur \in Idx /\ sync[cur])
     ELSE IF cur = emptyAt /\ lastU = 0
          THEN /\ UNCHANGED <<lastU, lru, rLastU>> /\ ok' = (ok /\ rLastU = 0)
          ELSE LET tid == IF lastU = 0 THEN cur ELSE IF cur = lastU THEN 0 ELSE cur
                   ref == IF tid = 0 THEN rLastU ELSE tid
               IN /\ lastU' = cur /\ lru' = ToEnd(lru, cur) /\ rLastU' = ref
                  /\ ok' = (ok /\ tid \in 0..Size /\ ref = cur /\ sync[cur])

Next ==
  \/ \E i \in Idx : EntryHit(i)
  \/ EntryMiss(FALSE)
  \/ EntryMiss(TRUE)
  \/ Term

---------------------------------------------------------------------------
(* the inductive invariant *)
IndInv ==
  /\ Len(lru) <= Size
  /\ Elems(lru) = {i \in Idx : i <= Len(lru)}              \* indices are assigned densely ...
  /\ \A a, b \in DOMAIN lru : a # b => lru[a] # lru[b]      \* ... and each is resident once
  /\ lastA >= 0 /\ lastA <= Len(lru) /\ lastU >= 0 /\ lastU <= Len(lru)
  /\ (Len(lru) > 0 => lastA >= 1)
  /\ emptyAt >= 0 /\ emptyAt <= Len(lru)
  /\ \A i \in Idx : sync[i] = (i <= Len(lru))               \* the reader holds exactly what the writer holds
  /\ rLastA = lastA /\ rLastU = lastU                       \* registers mirrored
  /\ pc \in {"idle", "term"}
  /\ (pc = "term" => Len(lru) > 0 /\ cur = lru[Len(lru)])   \* the key in use is the most recently used one
  /\ cur \in 0..Size
  /\ ok

(* non-vacuity probes: both must be VIOLATED from IndInit (the inductive hypothesis has full tables and a key in use) *)
ProbeNotFull == Len(lru) < Size
ProbeIdle == pc = "idle"

IndInit ==
  /\ lru = Gen(Size) /\ sync = Gen(Size)
  /\ lastA = Gen(1) /\ lastU = Gen(1) /\ emptyAt = Gen(1) /\ rLastA = Gen(1) /\ rLastU = Gen(1)
  /\ pc = Gen(1) /\ cur = Gen(1) /\ ok = Gen(1)
  /\ DOMAIN sync = Idx
  /\ IndInv
=============================================================================
