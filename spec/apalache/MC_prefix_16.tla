---- MODULE MC_prefix_16 ----
EXTENDS PyLookupInd
CInit == Size = 16 /\ Rule = "prefix"
====
