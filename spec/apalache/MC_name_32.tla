---- MODULE MC_name_32 ----
EXTENDS PyLookupInd
CInit == Size = 32 /\ Rule = "name"
====
