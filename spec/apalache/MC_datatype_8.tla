---- MODULE MC_datatype_8 ----
EXTENDS PyLookupInd
CInit == Size = 8 /\ Rule = "datatype"
====
