---- MODULE MC_name_16 ----
EXTENDS PyLookupInd
CInit == Size = 16 /\ Rule = "name"
====
