---- MODULE MC_datatype_16 ----
EXTENDS PyLookupInd
CInit == Size = 16 /\ Rule = "datatype"
====
