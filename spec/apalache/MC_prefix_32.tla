---- MODULE MC_prefix_32 ----
EXTENDS PyLookupInd
CInit == Size = 32 /\ Rule = "prefix"
====
