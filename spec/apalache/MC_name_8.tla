---- MODULE MC_name_8 ----
EXTENDS PyLookupInd
CInit == Size = 8 /\ Rule = "name"
====
