---- MODULE MC_datatype_32 ----
EXTENDS PyLookupInd
CInit == Size = 32 /\ Rule = "datatype"
====
