---- MODULE MC_prefix_8 ----
EXTENDS PyLookupInd
CInit == Size = 8 /\ Rule = "prefix"
====
