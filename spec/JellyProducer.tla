--------------------------- MODULE JellyProducer ---------------------------
(***************************************************************************)
(* Tier 1 -- "any conformant producer".                                     *)
(*                                                                          *)
(* The Jelly format defines a valid stream through its consumer, so the     *)
(* producer is the nondeterministic generator of exactly the row sequences  *)
(* the Tier-1 reader (JellyReader) accepts: at every step it may            *)
(*   - (re)define any slot of any table with any string, explicit id or the *)
(*     zero form (so: any eviction policy, early and redundant entries),    *)
(*   - build a statement slot by slot from ANY wire form that resolves:     *)
(*     any resident prefix/name split, explicit or zero ids, elide or not,  *)
(*   - repeat the options row, cut a frame, emit an empty frame,            *)
(*   - open/close graphs, declare namespaces (version 2),                   *)
(*   - and, once, inject ONE catalogued violation (property C16), which     *)
(*     must be confirmed invalid by the reader at that very row.            *)
(*                                                                          *)
(* `rd` carries the meaning: rd.item after a statement / namespace row is   *)
(* what that row denotes.  hist is the behaviour handed to the harness:     *)
(* wire rows (with cuts) and the denoted items.                             *)
(***************************************************************************)
EXTENDS Integers, Sequences, FiniteSets, TLC, JellyReader, Json

CONSTANTS
  PType, MaxN, MaxP, MaxD, Ver,       \* options of the stream
  IdsN, IdsP, IdsD,                   \* ids the producer uses (subsets of 1..Max*)
  StrN, StrP, StrD,                   \* strings it puts into the name / prefix / datatype tables
  Bnodes, Lexes, Langs, NsNames,      \* other string pools
  AllowGen, AllowStar,                \* generalized statements / quoted triples
  Faults,                             \* set of fault classes that may be injected (C16); {} = none
  FaultAt,                            \* the violation is injected at the first opportunity after that many rows
  KindsOverride,                      \* <<>> or a function slot -> allowed term kinds (to keep exhaustive universes small)
  Exhaustive,                         \* TRUE: no history, reader counters reset at every row: the reachable set is finite and every
                                      \*       transition (reader state, row, reader state') is printed for the state-graph comparison
  HistLen                             \* stop and print after that many rows

VARIABLES rd, cur, pc, hist, den, violated
vars == <<rd, cur, pc, hist, den, violated>>

Arity == IF PType = PT_QUADS THEN 4 ELSE 3
SlotName(i) == <<"s", "p", "o", "g">>[i]
OptRow == [r |-> "opt", name |-> "", pt |-> PType, gen |-> AllowGen, star |-> AllowStar,
           mn |-> MaxN, mp |-> MaxP, md |-> MaxD, lt |-> 0, ver |-> Ver]

Init ==
  /\ rd = RdInit
  /\ cur = [row |-> EmptyFn, lpu |-> 0, lnu |-> 0, n |-> 0, kind |-> "", ikind |-> "", q |-> <<>>]
  /\ pc = "new"
  /\ hist = <<>> /\ den = <<>>
  /\ violated = ""

Room == Exhaustive \/ Len(hist) < HistLen

(* projection of the reader state used for the state-graph comparison with the real Decoder *)
Tab(t, ids) == [i \in ids |-> IF i \in DOMAIN t THEN <<t[i]>> ELSE <<>>]
Key(r) == [names |-> Tab(r.names, IdsN), pfx |-> Tab(r.pfx, IdsP), dts |-> Tab(r.dts, IdsD),
           lna |-> r.lna, lpa |-> r.lpa, lda |-> r.lda, lnu |-> r.lnu, lpu |-> r.lpu,
           prev |-> r.prev, gopen |-> r.gopen, g |-> r.g]

(* a row reaches the wire *)
Emit(row) ==
  LET r2 == RdStep(rd, row) IN
  /\ r2.err = ""
  /\ IF Exhaustive
     THEN /\ rd' = [r2 EXCEPT !.n = 0, !.item = EmptyFn, !.aud = ZeroAud, !.lastg = <<>>]
          /\ UNCHANGED <<hist, den>>
          /\ PrintT("TR " \o ToJson([from |-> Key(rd), row |-> row, to |-> Key(r2),
                                      item |-> IF r2.n > rd.n THEN <<r2.item>> ELSE <<>>]))
     ELSE /\ rd' = r2
          /\ hist' = Append(hist, row)
          /\ den' = IF r2.n > rd.n THEN Append(den, r2.item) ELSE den

Options ==
  /\ pc = "new" /\ Emit(OptRow) /\ pc' = "idle" /\ UNCHANGED <<cur, violated>>

(* The kind of the next step is chosen first and its parameters second.  This changes nothing about  *)
(* which streams can be produced; it only keeps TLC's random simulation (uniform over successor      *)
(* states) from spending nearly all its steps on the many-parameter Define action.                   *)
Go(k) ==
  /\ pc = "idle" /\ Room /\ k \in {"def", "misc", "stmt", "fault"}
  /\ (k = "stmt" => (PType = PT_GRAPHS => rd.gopen))
  /\ (k = "stmt" => AllowGen \/ DOMAIN rd.names # {} \/ "p" \in DOMAIN rd.prev)   \* a predicate IRI must be expressible
  /\ (k = "fault" => Faults # {} /\ violated = "" /\ Len(hist) >= FaultAt)
  /\ pc' = k
  /\ cur' = IF k = "stmt"
            THEN [row |-> ("r" :> (IF PType = PT_QUADS THEN "quad" ELSE "triple")), lpu |-> rd.lpu, lnu |-> rd.lnu, n |-> 0,
                  kind |-> "", ikind |-> "", q |-> <<>>]
            ELSE cur
  /\ UNCHANGED <<rd, hist, den, violated>>

RepeatOptions ==
  /\ pc = "misc" /\ Emit(OptRow) /\ pc' = "idle" /\ UNCHANGED <<cur, violated>>

Cut ==                       \* frame boundary (also produces empty frames when repeated)
  /\ pc = "misc" /\ Emit([r |-> "cut"]) /\ pc' = "idle" /\ UNCHANGED <<cur, violated>>

Define(kind, id, v, zero) == \* any slot, any string; zero form only where the delta rule makes it equivalent
  /\ pc = "def" /\ pc' = "idle"
  /\ LET last == CASE kind = "name" -> rd.lna [] kind = "pfx" -> rd.lpa [] OTHER -> rd.lda IN
     /\ (zero => id = last + 1)
     /\ Emit([r |-> kind, id |-> IF zero THEN 0 ELSE id, v |-> v])
  /\ UNCHANGED <<cur, violated>>

---------------------------------------------------------------------------
(* candidate wire terms, by kind *)
IriForms == {[t |-> "iri", p |-> p, n |-> n] : p \in IdsP \cup {0}, n \in IdsN \cup {0}}
LitForms == {[t |-> "lit", lex |-> l] : l \in Lexes}
            \cup {[t |-> "lit", lex |-> l, lang |-> g] : l \in Lexes, g \in Langs}
            \cup {[t |-> "lit", lex |-> l, dt |-> d] : l \in Lexes, d \in IdsD}
BnForms  == {[t |-> "bn", v |-> b] : b \in Bnodes}
Forms(k) == CASE k = "iri" -> IriForms [] k = "lit" -> LitForms [] k = "bn" -> BnForms [] k = "dg" -> {[t |-> "dg"]} [] OTHER -> {}

Kinds(i) ==                  \* term kinds allowed in slot i
  IF KindsOverride # <<>> THEN KindsOverride[i] ELSE
  CASE i = 1 -> {"iri", "bn"} \cup (IF AllowGen THEN {"lit"} ELSE {}) \cup (IF AllowStar THEN {"qt"} ELSE {})
    [] i = 2 -> {"iri"} \cup (IF AllowGen THEN {"bn", "lit"} ELSE {})
    [] i = 3 -> {"iri", "bn", "lit"} \cup (IF AllowStar THEN {"qt"} ELSE {})
    [] OTHER -> {"iri", "bn", "dg"} \cup (IF AllowGen THEN {"lit"} ELSE {})
InnerKinds == {"iri", "bn", "lit"}

Kind(k) ==                   \* choose the kind of the next term of the row (or of the next inner term of a quoted triple)
  /\ pc = "stmt" /\ cur.n < Arity
  /\ (k # "qt" => \E w \in Forms(k) : DecTerm(rd, w, cur.lpu, cur.lnu).err = "")    \* something of that kind resolves
  /\ \/ /\ cur.kind = "" /\ k \in Kinds(cur.n + 1) /\ cur' = [cur EXCEPT !.kind = k]
     \/ /\ cur.kind = "qt" /\ cur.ikind = "" /\ k \in InnerKinds /\ cur' = [cur EXCEPT !.ikind = k]
  /\ UNCHANGED <<rd, pc, hist, den, violated>>

Pick(w) ==                   \* any wire form of that kind that resolves, given the registers as they are at this point of the row
  /\ pc = "stmt" /\ cur.n < Arity /\ cur.kind \notin {"", "qt"}
  /\ w \in Forms(cur.kind)
  /\ LET d == DecTerm(rd, w, cur.lpu, cur.lnu) IN
     /\ d.err = ""
     /\ cur' = [cur EXCEPT !.row = (SlotName(cur.n + 1) :> w) @@ @, !.lpu = d.lpu, !.lnu = d.lnu, !.n = @ + 1, !.kind = ""]
  /\ UNCHANGED <<rd, pc, hist, den, violated>>

PickInner(w) ==              \* quoted triple: its three terms, depth first in wire order, never elided
  /\ pc = "stmt" /\ cur.kind = "qt" /\ cur.ikind # ""
  /\ w \in Forms(cur.ikind)
  /\ LET d == DecTerm(rd, w, cur.lpu, cur.lnu)
         q == Append(cur.q, w)
     IN /\ d.err = ""
        /\ cur' = IF Len(q) < 3
                  THEN [cur EXCEPT !.q = q, !.lpu = d.lpu, !.lnu = d.lnu, !.ikind = ""]
                  ELSE [cur EXCEPT !.row = (SlotName(cur.n + 1) :> [t |-> "qt", s |-> q[1], p |-> q[2], o |-> q[3]]) @@ @,
                                   !.q = <<>>, !.lpu = d.lpu, !.lnu = d.lnu, !.n = @ + 1, !.kind = "", !.ikind = ""]
  /\ UNCHANGED <<rd, pc, hist, den, violated>>

Elide ==                     \* R5: leave the slot out, it repeats the previous statement's term
  /\ pc = "stmt" /\ cur.n < Arity /\ cur.kind = ""
  /\ SlotName(cur.n + 1) \in DOMAIN rd.prev
  /\ cur' = [cur EXCEPT !.n = @ + 1]
  /\ UNCHANGED <<rd, pc, hist, den, violated>>

EndStmt ==
  /\ pc = "stmt" /\ cur.n = Arity
  /\ Emit(cur.row)
  /\ pc' = "idle"
  /\ UNCHANGED <<cur, violated>>

GraphStart(w) ==
  /\ pc = "misc" /\ PType = PT_GRAPHS /\ ~rd.gopen
  /\ w \in UNION {Forms(k) : k \in Kinds(4)}
  /\ Emit([r |-> "gs", g |-> w])
  /\ pc' = "idle"
  /\ UNCHANGED <<cur, violated>>

GraphEnd ==
  /\ pc \in {"misc", "idle"} /\ PType = PT_GRAPHS /\ rd.gopen
  /\ (pc = "idle" => ~Room)
  /\ Emit([r |-> "ge"])
  /\ pc' = "idle"
  /\ UNCHANGED <<cur, violated>>

Namespace(name, w) ==
  /\ pc = "misc" /\ Ver >= 2
  /\ w \in IriForms
  /\ Emit([r |-> "ns", name |-> name, iri |-> w])
  /\ pc' = "idle"
  /\ UNCHANGED <<cur, violated>>

---------------------------------------------------------------------------
(* C16: one catalogued violation, confirmed invalid by the reference decoder at that row *)

Bn0 == [t |-> "bn", v |-> "f"]
Stmt(s, p, o) ==
  IF PType = PT_QUADS THEN [r |-> "quad", s |-> s, p |-> p, o |-> o, g |-> [t |-> "dg"]]
  ELSE [r |-> "triple", s |-> s, p |-> p, o |-> o]
InSlot(i, w) == CASE i = 1 -> Stmt(w, Bn0, Bn0) [] i = 2 -> Stmt(Bn0, w, Bn0) [] OTHER -> Stmt(Bn0, Bn0, w)
Unfilled(tab, ids) == {i \in ids : i \notin DOMAIN tab}

FaultRows(class) ==
  CASE class = "entry-id-beyond-size" ->
         {[r |-> "name", id |-> MaxN + 1, v |-> "x"], [r |-> "pfx", id |-> MaxP + 1, v |-> "x"], [r |-> "dt", id |-> MaxD + 1, v |-> "x"]}
         \cup (IF rd.lna = MaxN THEN {[r |-> "name", id |-> 0, v |-> "x"]} ELSE {})
    [] class = "reference-beyond-size" ->
         {InSlot(i, [t |-> "iri", p |-> 0, n |-> MaxN + 1]) : i \in 1..3}
         \cup {InSlot(i, [t |-> "iri", p |-> MaxP + 1, n |-> n]) : i \in 1..3, n \in DOMAIN rd.names}
         \cup {InSlot(3, [t |-> "lit", lex |-> "l", dt |-> MaxD + 1])}
         \cup (IF rd.lnu = MaxN THEN {InSlot(1, [t |-> "iri", p |-> 0, n |-> 0])} ELSE {})
    [] class = "reference-to-unfilled-slot" ->
         {InSlot(i, [t |-> "iri", p |-> 0, n |-> n]) : i \in 1..3, n \in Unfilled(rd.names, IdsN)}
         \cup {InSlot(i, [t |-> "iri", p |-> p, n |-> n]) : i \in 1..3, p \in Unfilled(rd.pfx, IdsP), n \in DOMAIN rd.names}
         \cup {InSlot(3, [t |-> "lit", lex |-> "l", dt |-> d]) : d \in Unfilled(rd.dts, IdsD)}
    [] class = "datatype-reference-zero" ->
         IF MaxD > 0 THEN {InSlot(3, [t |-> "lit", lex |-> "l", dt |-> 0])} ELSE {}
    [] class = "datatype-reference-table-disabled" ->
         IF MaxD = 0 THEN {InSlot(3, [t |-> "lit", lex |-> "l", dt |-> 1])} ELSE {}
    [] class = "repeated-term-without-previous" ->
         IF rd.n = 0 /\ DOMAIN rd.prev = {} THEN
           {[r |-> IF PType = PT_QUADS THEN "quad" ELSE "triple", p |-> Bn0, o |-> Bn0],
            [r |-> IF PType = PT_QUADS THEN "quad" ELSE "triple", s |-> Bn0, p |-> Bn0]} ELSE {}
    [] class = "repeated-term-in-quoted-triple" ->
         {InSlot(i, [t |-> "qt", s |-> Bn0, o |-> Bn0]) : i \in {1, 3}} \cup {InSlot(3, [t |-> "qt", p |-> Bn0, o |-> Bn0])}
         \* ... also at depth 2, and in a slot that FOLLOWS a complete nested quoted triple
         \cup {InSlot(i, [t |-> "qt", s |-> [t |-> "qt", s |-> Bn0, p |-> Bn0, o |-> Bn0], o |-> Bn0]) : i \in {1, 3}}
         \cup {InSlot(3, [t |-> "qt", s |-> [t |-> "qt", s |-> Bn0, p |-> Bn0, o |-> Bn0], p |-> Bn0])}
         \cup {InSlot(3, [t |-> "qt", s |-> Bn0, p |-> Bn0, o |-> [t |-> "qt", s |-> Bn0, o |-> Bn0]])}
    [] class = "row-kind-forbidden-by-physical-type" ->
         CASE PType = PT_TRIPLES -> {[r |-> "quad", s |-> Bn0, p |-> Bn0, o |-> Bn0, g |-> [t |-> "dg"]], [r |-> "gs", g |-> [t |-> "dg"]], [r |-> "ge"]}
           [] PType = PT_QUADS -> {[r |-> "triple", s |-> Bn0, p |-> Bn0, o |-> Bn0], [r |-> "gs", g |-> [t |-> "dg"]]}
           [] OTHER -> {[r |-> "quad", s |-> Bn0, p |-> Bn0, o |-> Bn0, g |-> [t |-> "dg"]]}
    [] class = "triple-outside-graph" ->
         IF PType = PT_GRAPHS /\ ~rd.gopen THEN {[r |-> "triple", s |-> Bn0, p |-> Bn0, o |-> Bn0]} ELSE {}
    [] OTHER -> {}

FaultClass(class) ==         \* first the class (only one that is possible here), then the row
  /\ pc = "fault" /\ cur.kind = "" /\ class \in Faults
  /\ \E row \in FaultRows(class) : RdStep(rd, row).err # ""
  /\ cur' = [cur EXCEPT !.kind = class]
  /\ UNCHANGED <<rd, pc, hist, den, violated>>

Violate(row) ==
  /\ pc = "fault" /\ cur.kind # ""
  /\ (PType = PT_GRAPHS /\ cur.kind # "triple-outside-graph" /\ row.r = "triple" => rd.gopen)   \* keep the classes apart
  /\ row \in FaultRows(cur.kind)
  /\ RdStep(rd, row).err # ""                  \* confirmed invalid by the reference decoder
  /\ violated' = cur.kind
  /\ hist' = Append(hist, row)
  /\ pc' = "done"
  /\ UNCHANGED <<rd, cur, den>>

(* violations of the header: the stream starts wrongly *)
BadStart(class) ==
  /\ pc = "new" /\ class \in Faults
  /\ LET row == CASE class = "missing-options-row" -> [r |-> "name", id |-> 0, v |-> "x"]
                  [] class = "unsupported-version" -> [OptRow EXCEPT !.ver = MaxVersion + 1]
                  [] class = "unsupported-stream-type" -> [OptRow EXCEPT !.pt = 0]
                  [] OTHER -> OptRow
     IN /\ class \in {"missing-options-row", "unsupported-version", "unsupported-stream-type"}
        /\ RdStep(rd, row).err # ""
        /\ hist' = <<row>>
  /\ violated' = class /\ pc' = "done"
  /\ UNCHANGED <<rd, cur, den>>

AllFaultRows == UNION {FaultRows(c) : c \in Faults}
PrintFaults ==              \* exhaustive mode: every catalogued illegal next row of every reachable reader state
  (Exhaustive /\ pc = "idle" /\ Faults # {}) =>
     \A c \in Faults : \A row \in FaultRows(c) :
        (RdStep(rd, row).err # "" =>
           PrintT("FR " \o ToJson([from |-> Key(rd), row |-> row, class |-> c, clause |-> RdStep(rd, row).err])))

Next ==
  \/ Options \/ RepeatOptions \/ Cut
  \/ \E id \in IdsN, v \in StrN, z \in BOOLEAN : Define("name", id, v, z)
  \/ \E id \in IdsP, v \in StrP, z \in BOOLEAN : Define("pfx", id, v, z)
  \/ \E id \in IdsD, v \in StrD, z \in BOOLEAN : Define("dt", id, v, z)
  \/ \E k \in {"def", "misc", "stmt"} : Go(k)
  \/ (Go("fault") /\ \E c \in Faults : \E row \in FaultRows(c) : RdStep(rd, row).err # "")   \* only where some catalogued fault is possible
  \/ \E k \in {"iri", "bn", "lit", "qt", "dg"} : Kind(k)
  \/ Elide \/ EndStmt
  \/ \E w \in IriForms \cup LitForms \cup BnForms \cup {[t |-> "dg"]} : Pick(w) \/ PickInner(w) \/ GraphStart(w)
  \/ GraphEnd
  \/ \E nm \in NsNames, w \in IriForms : Namespace(nm, w)
  \/ \E c \in Faults : (BadStart(c) \/ FaultClass(c) \/ \E row \in FaultRows(c) : Violate(row))

Spec == Init /\ [][Next]_vars

---------------------------------------------------------------------------
(* the reader and the producer agree: nothing legal is ever rejected, every injected fault is *)
Legal == violated = "" => rd.err = ""
DenCount == Len(den) = rd.n

Finished == \/ pc = "done"
            \/ (pc = "idle" /\ Len(hist) >= HistLen /\ ~rd.gopen)
PrintHist ==
  Finished => PrintT("BEHAVIOUR " \o ToJson([rows |-> hist, den |-> den, violated |-> violated,
                                              opt |-> [pt |-> PType, mn |-> MaxN, mp |-> MaxP, md |-> MaxD, ver |-> Ver]]))
=============================================================================
