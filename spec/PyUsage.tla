------------------------------ MODULE PyUsage ------------------------------
(***************************************************************************)
(* The ways of CALLING pyjelly, as a lattice (growth beyond the listed      *)
(* properties; used by C15 for the read side and C01 / C02 for the write    *)
(* side).                                                                   *)
(*                                                                          *)
(* What a stream denotes does not depend on how its bytes are handed to the *)
(* parser, and what is written does not depend on how the statements are    *)
(* handed to the serializer.  The seeded changes of rounds g and h all      *)
(* lived in a corner of this lattice the replay did not visit; so the       *)
(* lattice is written down, TLC enumerates it, and the harness visits every *)
(* point with one non-trivial workload per stream kind, comparing with the  *)
(* plain call (a fresh BytesIO, a generator, explicit options).             *)
(*                                                                          *)
(* Promised(p) marks the points the documentation / type hints promise to   *)
(* support: there the call must succeed and agree; elsewhere it may raise   *)
(* (loudly), but if it returns it must agree as well.                       *)
(***************************************************************************)
EXTENDS Integers, Sequences, FiniteSets, TLC, Json

Integs   == {"generic", "rdflib"}
Kinds    == {"triples", "quads", "graphs"}          \* physical type of the workload

(* ---- read side ---- *)
REntries == {"flat", "flat-preread", "grouped", "to_graph", "plugin"}     \* plugin: Graph.parse(format="jelly") / GenericStatementSink.parse
Sources  == {"bytesio", "bytesio-at-offset", "file", "file-at-offset", "buffered-random", "named-temporary-file", "spooled-temporary-file",
             "duck-typed-seekable", "gzip", "pipe-full-reads", "pipe-1-1-1", "pipe-7-byte-reads", "buffered-over-pipe",
             "socket-makefile", "socket-makefile-unbuffered"}                    \* a socketpair: BufferedReader(16) over SocketIO, and the raw SocketIO
Factories == {"default", "custom"}

ReadLattice == {p \in [integ : Integs, kind : Kinds, delimited : BOOLEAN, entry : REntries, source : Sources, factory : Factories] :
                  /\ (p.entry = "grouped" => p.delimited)                       \* a non-delimited stream is one frame: the grouped parser is for delimited streams
                  /\ (p.factory = "custom" => p.entry \in {"grouped", "to_graph"})
                  /\ (p.entry = "plugin" => p.source \in {"bytesio", "file", "pipe-full-reads"})}       \* (what rdflib's / the sink's own input handling passes through)

ReadPromised(p) == TRUE                                                        \* every point of the read lattice is documented use

(* ---- write side ---- *)
WEntries == {"stream_frames", "flat_to_frames", "flat_to_file", "grouped_to_file", "plugin"}            \* plugin: Graph.serialize / GenericStatementSink.serialize
Inputs   == {"container", "generator", "map-iterator", "iterator-class", "list", "plain-tuples-generator"}
Options  == {"explicit", "guessed", "shared-object-second-use", "explicit-flow-object"}
Outputs  == {"bytesio", "file", "buffered-writer", "frames-collected-then-written", "gzip-file", "socket-makefile"}

WriteLattice == {p \in [integ : Integs, kind : Kinds, delimited : BOOLEAN, entry : WEntries, input : Inputs, options : Options, output : Outputs] :
                   /\ (p.entry \in {"grouped_to_file", "plugin"} => p.input = "container")                 \* these take graphs / datasets / sinks
                   /\ (p.entry \in {"flat_to_frames", "flat_to_file"} => p.input # "container" /\ p.kind # "graphs")   \* flat helpers take statements; they never pick a GraphStream
                   /\ (p.entry = "flat_to_file" => p.output # "frames-collected-then-written")
                   /\ (p.output = "frames-collected-then-written" => p.entry \in {"stream_frames", "flat_to_frames"})
                   /\ (p.options = "guessed" => p.entry # "stream_frames" /\ p.kind # "graphs")           \* stream_frames needs a Stream, i.e. options; guessing never gives GRAPHS
                   /\ (p.options = "explicit-flow-object" => p.kind # "graphs")
                   /\ (~p.delimited => p.entry \in {"stream_frames", "plugin"} /\ p.options # "guessed")   \* the *_to_file helpers always write delimited
                   /\ (p.input = "plain-tuples-generator" => p.integ = "rdflib" /\ p.kind # "graphs")      \* the generic integration has its own Triple / Quad classes; regrouping quads into graphs reads quad.g
                   /\ (p.kind = "graphs" /\ p.entry = "plugin" => p.integ = "rdflib")                      \* GenericStatementSink.serialize guesses TRIPLES / QUADS ...
                   /\ (p.entry = "plugin" /\ p.integ = "generic" => p.options = "guessed" /\ p.delimited)   \* ... and takes no options at all
                   /\ (p.entry = "plugin" /\ p.integ = "rdflib" => p.options # "shared-object-second-use" \/ TRUE)}

WritePromised(p) == p.input \in {"container", "generator", "map-iterator", "iterator-class", "plain-tuples-generator"}    \* a list is not a Generator: either outcome

VARIABLE done
Init == done = FALSE
Next == done' = TRUE
Spec == Init /\ [][Next]_done

PrintRead  == done => \A p \in ReadLattice : PrintT("READ " \o ToJson(p))
PrintWrite == done => \A p \in WriteLattice : PrintT("WRITE " \o ToJson([p EXCEPT !.kind = p.kind] @@ [promised |-> WritePromised(p)]))
Sizes == done => PrintT("SIZES " \o ToJson([read |-> Cardinality(ReadLattice), write |-> Cardinality(WriteLattice)]))
=============================================================================
