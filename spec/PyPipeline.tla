----------------------------- MODULE PyPipeline -----------------------------
(***************************************************************************)
(* Tier 2 (+ Tier-1 action properties) -- the generator pipelines.          *)
(*                                                                          *)
(* WRITE side (property C11, first half): input iterator -> serializer      *)
(* generator (flat_stream_to_frames / stream_frames over a statement        *)
(* iterator) -> consumer of frames.  One action per generator step:         *)
(*   consumer calls next(frames)                 Resume                     *)
(*   serializer calls next(statements)           Pull                       *)
(*   encode + flow.extend                        Encode(r)                  *)
(*   flow.frame_from_bounds() is a frame: yield  YieldFrame                 *)
(*   input exhausted: final to_stream_frame      FinalFlush / Finish        *)
(* ReadAhead = 0 is the code; ReadAhead > 0 is a serializer that first      *)
(* collects that many statements (list(statements)), which TLC must reject. *)
(*                                                                          *)
(* READ side (second half): byte source -> frame iterator -> row decoder    *)
(* -> consumer.  The source has delivered the bytes of frames 1..Delivered  *)
(* and then stalls forever:                                                 *)
(*   parser asks the source for more bytes       ReadReq (blocks = stall)   *)
(*   a complete frame is parsed                  ParseFrame                 *)
(*   one row is decoded and yielded              YieldRow                   *)
(* Lookahead = 0 is the code; Lookahead = 1 is a parser that needs the      *)
(* first byte of the next frame before yielding the rows of this one.       *)
(***************************************************************************)
EXTENDS Integers, Sequences, TLC

CONSTANTS NStmts, FrameSize, MaxRows, ReadAhead,          \* write side
          EnrollFirst,                                      \* stream_frames enrolls (options row) before the first pull; flat_stream_to_frames after it
          NFrames, RowsPerFrame, Delivered, Lookahead      \* read side

---------------------------------------------------------------------------
VARIABLES wpc,      \* "consumer" | "serializer" | "done"
          pulled,   \* statements taken from the input iterator
          encoded,  \* statements encoded so far
          pending,  \* rows in the frame flow
          ready,    \* a frame has been cut and not yet handed over
          frames,   \* frames received by the consumer
          enrolled, \* the options row is in the flow
          lastPullPending,   \* observation: `pending` at the latest Pull
          completedBy        \* observation: index of the statement whose rows completed the frame being handed over
wvars == <<wpc, pulled, encoded, pending, ready, frames, enrolled, lastPullPending, completedBy>>

WInit == wpc = "consumer" /\ pulled = 0 /\ encoded = 0 /\ pending = 0 /\ ready = FALSE /\ frames = 0 /\ enrolled = FALSE
         /\ lastPullPending = 0 /\ completedBy = 0

Resume ==                     \* the consumer asks for the next frame
  /\ wpc = "consumer" /\ wpc' = "serializer"
  /\ UNCHANGED <<pulled, encoded, pending, ready, frames, enrolled, lastPullPending, completedBy>>

Enroll ==                     \* stream.enroll(): the options row
  /\ wpc = "serializer" /\ ~enrolled
  /\ (EnrollFirst \/ pulled >= 1)
  /\ enrolled' = TRUE /\ pending' = pending + 1
  /\ UNCHANGED <<wpc, pulled, encoded, ready, frames, lastPullPending, completedBy>>

Pull ==                       \* next(statements); the very first pull happens before the stream exists (guess_options)
  /\ wpc = "serializer" /\ ~ready /\ pulled < NStmts
  /\ (EnrollFirst => enrolled)
  /\ pulled - encoded <= ReadAhead           \* the code (ReadAhead = 0) pulls only when everything pulled has been encoded
  /\ pulled' = pulled + 1
  /\ lastPullPending' = pending
  /\ UNCHANGED <<wpc, encoded, pending, ready, frames, enrolled, completedBy>>

Encode(r) ==                  \* stream.triple()/quad(): rows into the flow, then frame_from_bounds
  /\ wpc = "serializer" /\ ~ready /\ encoded < pulled /\ enrolled
  /\ (pulled - encoded > ReadAhead \/ pulled = NStmts)
  /\ r \in 1..MaxRows
  /\ encoded' = encoded + 1
  /\ LET p == pending + r IN
     IF p >= FrameSize THEN pending' = 0 /\ ready' = TRUE /\ completedBy' = encoded + 1
     ELSE pending' = p /\ ready' = FALSE /\ completedBy' = completedBy
  /\ UNCHANGED <<wpc, pulled, frames, enrolled, lastPullPending>>

YieldFrame ==                 \* the frame goes to the consumer before anything else happens
  /\ wpc = "serializer" /\ ready
  /\ ready' = FALSE /\ frames' = frames + 1 /\ wpc' = "consumer"
  /\ UNCHANGED <<pulled, encoded, pending, enrolled, lastPullPending, completedBy>>

FinalFlush ==
  /\ wpc = "serializer" /\ ~ready /\ pulled = NStmts /\ encoded = NStmts /\ pending > 0
  /\ pending' = 0 /\ frames' = frames + 1 /\ wpc' = "consumer" /\ completedBy' = NStmts
  /\ UNCHANGED <<pulled, encoded, ready, enrolled, lastPullPending>>

Finish ==
  /\ wpc = "serializer" /\ ~ready /\ pulled = NStmts /\ encoded = NStmts /\ pending = 0
  /\ wpc' = "done"
  /\ UNCHANGED <<pulled, encoded, pending, ready, frames, enrolled, lastPullPending, completedBy>>

WNext == Resume \/ Enroll \/ Pull \/ (\E r \in 1..MaxRows : Encode(r)) \/ YieldFrame \/ FinalFlush \/ Finish

(* C11, write side *)
BoundedBuffering == [][(pulled' = pulled + 1 /\ pulled >= 1) => pending < FrameSize]_wvars     \* at every pull from the 2nd on
FrameBeforeInput == [][ready => pulled' = pulled]_wvars                                          \* a cut frame is handed over before more input is consumed
NoFurtherThanCompleting == [][(frames' = frames + 1) => pulled = completedBy']_wvars             \* consumed no further than the completing statement
WTerminates == <>(wpc = "done")

---------------------------------------------------------------------------
VARIABLES rpc,        \* "parser" | "stalled" | "done"
          consumedF,  \* frames whose bytes the parser has taken from the source
          parsedF,    \* frames parsed
          rowsOut,    \* rows yielded to the consumer
          rowsInFrame \* rows of the parsed frame not yet yielded
rvars == <<rpc, consumedF, parsedF, rowsOut, rowsInFrame>>

RInit == rpc = "parser" /\ consumedF = 0 /\ parsedF = 0 /\ rowsOut = 0 /\ rowsInFrame = 0

ReadReq ==                    \* the parser needs the bytes of the next frame (length prefix + payload)
  /\ rpc = "parser" /\ rowsInFrame = 0 /\ consumedF = parsedF
  /\ IF consumedF + Lookahead < Delivered \/ (consumedF < Delivered /\ Delivered = NFrames)
     THEN consumedF' = consumedF + 1 /\ rpc' = rpc
     ELSE /\ rpc' = (IF Delivered = NFrames /\ consumedF = NFrames THEN "done" ELSE "stalled")
          /\ consumedF' = consumedF
  /\ UNCHANGED <<parsedF, rowsOut, rowsInFrame>>

ParseFrame ==
  /\ rpc = "parser" /\ parsedF < consumedF /\ rowsInFrame = 0
  /\ parsedF' = parsedF + 1 /\ rowsInFrame' = RowsPerFrame
  /\ UNCHANGED <<rpc, consumedF, rowsOut>>

YieldRow ==
  /\ rpc = "parser" /\ rowsInFrame > 0
  /\ rowsInFrame' = rowsInFrame - 1 /\ rowsOut' = rowsOut + 1
  /\ UNCHANGED <<rpc, consumedF, parsedF>>

RNext == ReadReq \/ ParseFrame \/ YieldRow

allvars == <<wvars, rvars>>
WSpec == WInit /\ RInit /\ [][WNext /\ UNCHANGED rvars]_allvars /\ WF_allvars(WNext /\ UNCHANGED rvars)
RSpec == WInit /\ RInit /\ [][RNext /\ UNCHANGED wvars]_allvars /\ WF_allvars(RNext /\ UNCHANGED wvars)

(* C11, read side: everything that has arrived is yielded, without a byte of the next frame *)
Live == <>(rowsOut = Delivered * RowsPerFrame)
NoReadAhead == rpc = "stalled" => rowsOut = Delivered * RowsPerFrame
=============================================================================
