--------------------------- MODULE JellyReader ---------------------------
(***************************************************************************)
(* Tier 1 -- the CONSUMER CONTRACT of the Jelly format (rules R1-R8 of      *)
(* DESIGN.md 3.1), written from the format, not from pyjelly's decoder.     *)
(*                                                                          *)
(* The reader is a total state machine over rows: RdStep(rd, row) returns   *)
(* the next reader state; a bad row sets rd.err to the name of the clause   *)
(* that was broken and the state is then frozen.  What a row sequence       *)
(* DENOTES is the sequence of items (statements, namespace declarations)    *)
(* produced one per triple / quad / namespace row: rd.n counts them and     *)
(* rd.item is the latest one.                                               *)
(*                                                                          *)
(* Any eviction policy, any IRI split, any legal use of zero ids is         *)
(* accepted.  The audit counters (rd.aud) measure the compression contract  *)
(* of property C19 without influencing validity.                            *)
(*                                                                          *)
(* Wire rows / terms are records exactly as produced by harness/wire.py:    *)
(*   [r |-> "opt", name, pt, gen, star, mn, mp, md, lt, ver]                *)
(*   [r |-> "pfx"|"name"|"dt", id, v]                                       *)
(*   [r |-> "triple", s?, p?, o?]   [r |-> "quad", s?, p?, o?, g?]          *)
(*   [r |-> "gs", g?]  [r |-> "ge"]  [r |-> "ns", name, iri?]               *)
(*   [r |-> "cut"]  (frame boundary: transport only, R7)                    *)
(*   wire term: [t |-> "iri", p, n] | [t |-> "bn", v] | [t |-> "dg"]        *)
(*            | [t |-> "lit", lex, lang?, dt?] | [t |-> "qt", s?, p?, o?]   *)
(* Denoted terms:                                                           *)
(*   [k |-> "iri", v] [k |-> "bn", v] [k |-> "dg"]                          *)
(*   [k |-> "lit", lex, lang, dt]  [k |-> "qt", s, p, o]                    *)
(***************************************************************************)
EXTENDS Naturals, Sequences, FiniteSets, TLC

XsdString  == "http://www.w3.org/2001/XMLSchema#string"
MaxVersion == 2
MinNames   == 8

PT_TRIPLES == 1
PT_QUADS   == 2
PT_GRAPHS  == 3

EmptyFn == [x \in {} |-> x]

(* xsd:string typed literal == plain literal *)
Lit(lex, lang, dt) ==
  [k |-> "lit", lex |-> lex, lang |-> lang, dt |-> IF dt = XsdString THEN "" ELSE dt]

ZeroAud == [re |-> 0, me |-> 0, mz |-> 0, rg |-> 0, gen |-> 0, star |-> 0, entries |-> 0]

RdInit ==
  [ seen  |-> FALSE,      \* options row seen
    opt   |-> EmptyFn,    \* the options row
    names |-> EmptyFn, pfx |-> EmptyFn, dts |-> EmptyFn,   \* id -> string (filled slots only)
    lna   |-> 0, lpa |-> 0, lda |-> 0,    \* last assigned entry id per table (R2)
    lnu   |-> 0, lpu |-> 0,               \* last used name / prefix id (R3)
    prev  |-> EmptyFn,    \* slot -> previous term (R5); slot absent = no previous term
    gopen |-> FALSE,      \* GRAPHS: a graph is open
    g     |-> <<>>,       \* GRAPHS: <<term>> of the open graph
    lastg |-> <<>>,       \* GRAPHS: <<term>> of the graph closed last (audit only)
    err   |-> "",         \* "" or the name of the broken clause
    n     |-> 0,          \* number of items denoted so far
    item  |-> EmptyFn,    \* latest denoted item
    aud   |-> ZeroAud ]

Fail(rd, clause) == [rd EXCEPT !.err = clause]

---------------------------------------------------------------------------
(* R3 / R4 / R5: terms *)

TErr(clause) == [err |-> clause, term |-> EmptyFn, lpu |-> 0, lnu |-> 0, mz |-> 0, gen |-> 0, star |-> 0]
TOk(term, lpu, lnu, mz) == [err |-> "", term |-> term, lpu |-> lpu, lnu |-> lnu, mz |-> mz, gen |-> 0, star |-> 0]

ResIri(rd, t, lpu, lnu) ==
  LET n == IF t.n = 0 THEN lnu + 1 ELSE t.n          \* R3: name 0 = previous used + 1
      p == IF t.p = 0 THEN lpu ELSE t.p              \* R3: prefix 0 = previous used (none = "")
  IN IF n > rd.opt.mn THEN TErr("R3-name-ref-range")
     ELSE IF n \notin DOMAIN rd.names THEN TErr("R3-name-ref-unfilled")
     ELSE IF p > rd.opt.mp THEN TErr("R3-prefix-ref-range")
     ELSE IF p # 0 /\ p \notin DOMAIN rd.pfx THEN TErr("R3-prefix-ref-unfilled")
     ELSE TOk([k |-> "iri", v |-> (IF p = 0 THEN "" ELSE rd.pfx[p]) \o rd.names[n]], p, n,
              (IF t.n # 0 /\ t.n = lnu + 1 THEN 1 ELSE 0) + (IF t.p # 0 /\ t.p = lpu THEN 1 ELSE 0))

RECURSIVE DecTerm(_, _, _, _)
DecTerm(rd, t, lpu, lnu) ==
  CASE t.t = "iri" -> ResIri(rd, t, lpu, lnu)
    [] t.t = "bn"  -> TOk([k |-> "bn", v |-> t.v], lpu, lnu, 0)
    [] t.t = "dg"  -> TOk([k |-> "dg"], lpu, lnu, 0)
    [] t.t = "lit" ->
         IF "dt" \in DOMAIN t
         THEN IF rd.opt.md = 0 THEN TErr("R4-datatype-table-disabled")
              ELSE IF t.dt = 0 THEN TErr("R4-datatype-ref-zero")
              ELSE IF t.dt > rd.opt.md THEN TErr("R4-datatype-ref-range")
              ELSE IF t.dt \notin DOMAIN rd.dts THEN TErr("R4-datatype-ref-unfilled")
              ELSE TOk(Lit(t.lex, "", rd.dts[t.dt]), lpu, lnu, 0)
         ELSE IF "lang" \in DOMAIN t /\ t.lang # ""
              THEN TOk(Lit(t.lex, t.lang, ""), lpu, lnu, 0)
              ELSE TOk(Lit(t.lex, "", ""), lpu, lnu, 0)
    [] t.t = "qt"  ->
         IF ~({"s", "p", "o"} \subseteq DOMAIN t)      \* R5: no elision inside quoted triples
         THEN TErr("R5-elided-in-quoted")
         ELSE LET a == DecTerm(rd, t.s, lpu, lnu) IN
              IF a.err # "" THEN a ELSE
              LET b == DecTerm(rd, t.p, a.lpu, a.lnu) IN
              IF b.err # "" THEN b ELSE
              LET c == DecTerm(rd, t.o, b.lpu, b.lnu) IN
              IF c.err # "" THEN c ELSE
              [TOk([k |-> "qt", s |-> a.term, p |-> b.term, o |-> c.term],
                   c.lpu, c.lnu, a.mz + b.mz + c.mz) EXCEPT !.star = 1]
    [] OTHER -> TErr("R6-unknown-term-kind")

(* is a denoted term outside plain RDF 1.1 for this slot? (audit only) *)
Generalized(slot, term) ==
  \/ slot = "s" /\ term.k = "lit"
  \/ slot = "p" /\ term.k \in {"lit", "bn"}
  \/ slot = "g" /\ term.k = "lit"

(* one statement: the slots in wire order; registers threaded through; R5 *)
DecStmt(rd, row, slots) ==
  LET RECURSIVE Go(_, _)
      Go(i, acc) ==
        IF i > Len(slots) \/ acc.err # "" THEN acc
        ELSE LET sl == slots[i] IN
             IF sl \in DOMAIN row
             THEN LET d == DecTerm(rd, row[sl], acc.lpu, acc.lnu) IN
                  IF d.err # "" THEN [acc EXCEPT !.err = d.err]
                  ELSE Go(i + 1,
                          [err |-> "", lpu |-> d.lpu, lnu |-> d.lnu,
                           terms |-> (sl :> d.term) @@ acc.terms,
                           me  |-> acc.me + (IF sl \in DOMAIN rd.prev /\ rd.prev[sl] = d.term THEN 1 ELSE 0),
                           mz  |-> acc.mz + d.mz,
                           gen |-> acc.gen + (IF Generalized(sl, d.term) THEN 1 ELSE 0),
                           star |-> acc.star + d.star])
             ELSE IF sl \in DOMAIN rd.prev
                  THEN Go(i + 1, [acc EXCEPT !.terms = (sl :> rd.prev[sl]) @@ @])
                  ELSE [acc EXCEPT !.err = "R5-no-previous-term"]
  IN Go(1, [err |-> "", lpu |-> rd.lpu, lnu |-> rd.lnu, terms |-> EmptyFn,
            me |-> 0, mz |-> 0, gen |-> 0, star |-> 0])

AddAud(rd, d) ==
  [rd.aud EXCEPT !.me = @ + d.me, !.mz = @ + d.mz,
                 !.gen = @ + (IF d.gen > 0 /\ ~rd.opt.gen THEN 1 ELSE 0),
                 !.star = @ + (IF d.star > 0 /\ ~rd.opt.star THEN 1 ELSE 0)]

---------------------------------------------------------------------------
(* R1: options *)

RdOptions(rd, row) ==
  IF row.pt \notin {PT_TRIPLES, PT_QUADS, PT_GRAPHS} THEN Fail(rd, "R1-physical-type")
  ELSE IF row.mn < MinNames THEN Fail(rd, "R1-name-table-lt-8")
  ELSE IF row.ver > MaxVersion THEN Fail(rd, "R1-version-unsupported")
  ELSE [rd EXCEPT !.seen = TRUE, !.opt = row]

(* R2: lookup entries *)
RdEntry(rd, row) ==
  LET kind == row.r
      size == CASE kind = "name" -> rd.opt.mn [] kind = "pfx" -> rd.opt.mp [] OTHER -> rd.opt.md
      last == CASE kind = "name" -> rd.lna    [] kind = "pfx" -> rd.lpa    [] OTHER -> rd.lda
      tab  == CASE kind = "name" -> rd.names  [] kind = "pfx" -> rd.pfx    [] OTHER -> rd.dts
      id   == IF row.id = 0 THEN last + 1 ELSE row.id
      aud  == [rd.aud EXCEPT
                 !.entries = @ + 1,
                 !.re = @ + (IF \E i \in DOMAIN tab : tab[i] = row.v THEN 1 ELSE 0),
                 !.mz = @ + (IF row.id # 0 /\ row.id = last + 1 THEN 1 ELSE 0)]
      tab2 == (id :> row.v) @@ tab
  IN IF id > size THEN Fail(rd, "R2-entry-id-range")
     ELSE CASE kind = "name" -> [rd EXCEPT !.names = tab2, !.lna = id, !.aud = aud]
            [] kind = "pfx"  -> [rd EXCEPT !.pfx   = tab2, !.lpa = id, !.aud = aud]
            [] OTHER         -> [rd EXCEPT !.dts   = tab2, !.lda = id, !.aud = aud]

(* R5 / R6: statement rows *)
RdStatement(rd, row, slots, inGraph) ==
  LET d == DecStmt(rd, row, slots)
      t == d.terms IN
  IF d.err # "" THEN Fail(rd, d.err)
  ELSE [rd EXCEPT !.lpu = d.lpu, !.lnu = d.lnu,
                  !.prev = d.terms @@ @,
                  !.n = @ + 1,
                  !.item = IF inGraph THEN [s |-> t["s"], p |-> t["p"], o |-> t["o"], g |-> rd.g[1]]
                           ELSE IF Len(slots) = 4
                                THEN [s |-> t["s"], p |-> t["p"], o |-> t["o"], g |-> t["g"]]
                                ELSE [s |-> t["s"], p |-> t["p"], o |-> t["o"]],
                  !.aud = AddAud(rd, d)]

RdTriple(rd, row) ==
  CASE rd.opt.pt = PT_TRIPLES -> RdStatement(rd, row, <<"s", "p", "o">>, FALSE)
    [] rd.opt.pt = PT_GRAPHS  -> IF rd.gopen THEN RdStatement(rd, row, <<"s", "p", "o">>, TRUE)
                                 ELSE Fail(rd, "R6-triple-outside-graph")
    [] OTHER -> Fail(rd, "R6-row-kind")

RdQuad(rd, row) ==
  IF rd.opt.pt = PT_QUADS THEN RdStatement(rd, row, <<"s", "p", "o", "g">>, FALSE)
  ELSE Fail(rd, "R6-row-kind")

RdGraphStart(rd, row) ==
  IF rd.opt.pt # PT_GRAPHS THEN Fail(rd, "R6-row-kind")
  ELSE IF rd.gopen THEN Fail(rd, "R6-nested-graph-start")
  ELSE IF "g" \notin DOMAIN row THEN Fail(rd, "R6-graph-start-without-term")
  ELSE LET d == DecTerm(rd, row.g, rd.lpu, rd.lnu) IN
       IF d.err # "" THEN Fail(rd, d.err)
       ELSE [rd EXCEPT !.lpu = d.lpu, !.lnu = d.lnu, !.gopen = TRUE, !.g = <<d.term>>,
                       !.aud = [@ EXCEPT !.mz = @ + d.mz,
                                         !.rg = @ + (IF rd.lastg = <<d.term>> THEN 1 ELSE 0),
                                         !.gen = @ + (IF d.term.k = "lit" /\ ~rd.opt.gen THEN 1 ELSE 0)]]

RdGraphEnd(rd, row) ==
  IF rd.opt.pt # PT_GRAPHS THEN Fail(rd, "R6-row-kind")
  ELSE IF ~rd.gopen THEN Fail(rd, "R6-graph-end-without-start")
  ELSE [rd EXCEPT !.gopen = FALSE, !.lastg = rd.g, !.g = <<>>]

(* R8: namespace declarations *)
RdNamespace(rd, row) ==
  IF rd.opt.ver < 2 THEN Fail(rd, "R8-namespace-in-v1")
  ELSE IF "iri" \notin DOMAIN row THEN Fail(rd, "R8-namespace-without-iri")
  ELSE LET d == ResIri(rd, row.iri, rd.lpu, rd.lnu) IN
       IF d.err # "" THEN Fail(rd, d.err)
       ELSE [rd EXCEPT !.lpu = d.lpu, !.lnu = d.lnu, !.n = @ + 1,
                       !.item = [ns |-> row.name, iri |-> d.term.v],
                       !.aud = [@ EXCEPT !.mz = @ + d.mz]]

---------------------------------------------------------------------------
(* the reader's transition function *)

RdStep(rd, row) ==
  IF rd.err # "" THEN rd
  ELSE IF row.r = "cut" THEN rd                                   \* R7
  ELSE IF ~rd.seen
       THEN IF row.r = "opt" THEN RdOptions(rd, row) ELSE Fail(rd, "R1-first-row-not-options")
  ELSE CASE row.r = "opt"    -> IF row = rd.opt THEN rd ELSE Fail(rd, "R1-options-changed")
         [] row.r \in {"name", "pfx", "dt"} -> RdEntry(rd, row)
         [] row.r = "triple" -> RdTriple(rd, row)
         [] row.r = "quad"   -> RdQuad(rd, row)
         [] row.r = "gs"     -> RdGraphStart(rd, row)
         [] row.r = "ge"     -> RdGraphEnd(rd, row)
         [] row.r = "ns"     -> RdNamespace(rd, row)
         [] OTHER            -> Fail(rd, "R6-empty-or-unknown-row")

(* end of stream *)
RdEnd(rd) ==
  IF rd.err # "" THEN rd
  ELSE IF ~rd.seen THEN Fail(rd, "R1-no-options-row")
  ELSE IF rd.gopen THEN Fail(rd, "R6-graph-not-closed")
  ELSE rd

RECURSIVE RdRun(_, _, _)
RdRun(rd, rows, i) == IF i > Len(rows) THEN rd ELSE RdRun(RdStep(rd, rows[i]), rows, i + 1)
=============================================================================
