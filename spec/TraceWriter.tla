----------------------------- MODULE TraceWriter -----------------------------
(***************************************************************************)
(* State-graph comparison of the serializer at the granularity of one       *)
(* public call: triple()/quad() = <<stmt>>, namespace_declaration() = <<ns>>,*)
(* GraphStream.graph(g, triples) = <<gs, stmt, ..., stmt, ge>>.             *)
(*                                                                          *)
(* The harness walks, breadth first and on REAL Stream objects (deep-copied *)
(* at branch points), every reachable idle state x every statement of a     *)
(* slice universe, and records each real transition                         *)
(*    [id, from (projection of the real state), ops (the model ops of the   *)
(*     call, in order)]                                                     *)
(* TLC re-creates the model state from `from` (the reader's mirror state is *)
(* reconstructed from the writer's, which is what invariant Mirrored says), *)
(* takes the PyWriter actions of every op (stmt: Begin, SlotStep x arity,   *)
(* Commit -- or SlotReject, after which the stream is failed; ns: Namespace;*)
(* gs: GraphBegin; ge: GraphEnd),                                           *)
(* and prints what the MODEL emits and where it ends up, together with the  *)
(* composite verdict (Good: valid, faithful, tight).  The harness compares  *)
(* rows and successor state with the real ones: one test per real           *)
(* transition, judged by the specification.                                 *)
(***************************************************************************)
EXTENDS PyWriter, IOUtils

Batch == JsonDeserialize(IOEnv.TRACE_FILE)
VARIABLE tid
Tr == Batch[tid]

TabOf(k) ==
  [ord |-> k.ord,
   idx |-> [key \in {k.ord[i] : i \in 1..Len(k.ord)} |-> k.ix[CHOOSE i \in 1..Len(k.ord) : k.ord[i] = key]],
   la |-> k.la, lu |-> k.lu]

Inverse(t) == [i \in {t.idx[k] : k \in DOMAIN t.idx} |-> CHOOSE k \in DOMAIN t.idx : t.idx[k] = i]

ReaderOf(tb, rp) ==           \* invariant Mirrored, read from right to left (a call starts and ends with every graph closed)
  [RdInit EXCEPT !.seen = TRUE, !.opt = OptRow,
                 !.names = Inverse(tb.N), !.pfx = Inverse(tb.P), !.dts = Inverse(tb.D),
                 !.lna = tb.N.la, !.lpa = tb.P.la, !.lda = tb.D.la,
                 !.lnu = tb.N.lu, !.lpu = tb.P.lu,
                 !.prev = [sl \in {SlotName(i) : i \in {j \in 1..4 : rp[j] # NoTerm}} |->
                             Den(rp[CHOOSE j \in 1..4 : SlotName(j) = sl])]]

TInit ==
  /\ tid \in 1..Len(Batch)
  /\ LET tb == [N |-> TabOf(Tr.from.N), P |-> TabOf(Tr.from.P), D |-> TabOf(Tr.from.D), C |-> NoClaims]
         rp == <<Tr.from.rep[1], Tr.from.rep[2], Tr.from.rep[3], Tr.from.rep[4]>>
     IN /\ tabs = tb /\ rep = rp
        /\ rd = ReaderOf(tb, rp)
  /\ pc = "idle" /\ cur = <<>> /\ rows = <<>> /\ gcur = NoTerm
  /\ buf = Tr.from.buf
  /\ bad = "" /\ hist = <<>>

Op == Tr.ops[Len(hist) + 1]            \* every op appends exactly one record to hist when it completes (or is refused)

TNext ==
  /\ UNCHANGED tid
  /\ Len(hist) < Len(Tr.ops) /\ pc # "failed"
  /\ \/ (Op.op = "stmt" /\ Begin)
     \/ (Op.op = "stmt" /\ pc = "slot" /\ (SlotStep(Op.st[Len(cur) + 1]) \/ SlotReject(Op.st[Len(cur) + 1])))
     \/ (Op.op = "stmt" /\ Commit)
     \/ (Op.op = "ns" /\ Namespace(Op.ns))
     \/ (Op.op = "gs" /\ GraphBegin(Op.g))
     \/ (Op.op = "ge" /\ GraphEnd)

Report ==
  ((pc = "idle" /\ Len(hist) = Len(Tr.ops)) \/ pc = "failed") =>
     PrintT("STEP " \o ToJson([id |-> Tr.id, bad |-> bad, rows |-> [i \in 1..Len(hist) |-> hist[i].rows],
                               to |-> IF pc = "failed" THEN [failed |-> TRUE] ELSE IdleKey]))
=============================================================================
