----------------------------- MODULE TraceWriter -----------------------------
(***************************************************************************)
(* State-graph comparison of the serializer at the granularity of one       *)
(* public call: triple()/quad() = <<stmt>>, namespace_declaration() = <<ns>>,*)
(* GraphStream.graph(g, triples) = <<gs, stmt, ..., stmt, ge>>.             *)
(*                                                                          *)
(* The harness walks, breadth first and on REAL Stream objects (deep-copied *)
(* at branch points), every reachable idle state x every statement of a     *)
(* slice universe, and records each real transition                         *)
(*    [id, from (projection of the real state), ops (the model ops of the   *)
(*     call, in order)]                                                     *)
(* TLC re-creates the model state from `from` (the reader's mirror state is *)
(* reconstructed from the writer's, which is what invariant Mirrored says), *)
(* takes the PyWriter actions of every op (stmt: Begin, SlotStep x arity,   *)
(* Commit -- or SlotReject, after which the stream is failed; ns: Namespace;*)
(* gs: GraphBegin; ge: GraphEnd),                                           *)
(* and prints what the MODEL emits and where it ends up, together with the  *)
(* composite verdict (Good: valid, faithful, tight).  The harness compares  *)
(* rows and successor state with the real ones: one test per real           *)
(* transition, judged by the specification.                                 *)
(***************************************************************************)
EXTENDS PyWriter, IOUtils

Batch == JsonDeserialize(IOEnv.TRACE_FILE)
VARIABLE tid
Tr == Batch[tid]

TabOf(k) ==
  [ord |-> k.ord,
   idx |-> [key \in {k.ord[i] : i \in 1..Len(k.ord)} |-> k.ix[CHOOSE i \in 1..Len(k.ord) : k.ord[i] = key]],
   la |-> k.la, lu |-> k.lu]

Inverse(t) == [i \in {t.idx[k] : k \in DOMAIN t.idx} |-> CHOOSE k \in DOMAIN t.idx : t.idx[k] = i]

ReaderOf(tb, rp) ==           \* invariant Mirrored, read from right to left (a call starts and ends with every graph closed)
  [RdInit EXCEPT !.seen = TRUE, !.opt = OptRow,
                 !.names = Inverse(tb.N), !.pfx = Inverse(tb.P), !.dts = Inverse(tb.D),
                 !.lna = tb.N.la, !.lpa = tb.P.la, !.lda = tb.D.la,
                 !.lnu = tb.N.lu, !.lpu = tb.P.lu,
                 !.prev = [sl \in {SlotName(i) : i \in {j \in 1..4 : rp[j] # NoTerm}} |->
                             Den(rp[CHOOSE j \in 1..4 : SlotName(j) = sl])]]

TInit ==
  /\ tid \in 1..Len(Batch)
  /\ LET tb == [N |-> TabOf(Tr.from.N), P |-> TabOf(Tr.from.P), D |-> TabOf(Tr.from.D), C |-> NoClaims]
         rp == <<Tr.from.rep[1], Tr.from.rep[2], Tr.from.rep[3], Tr.from.rep[4]>>
     IN /\ tabs = tb /\ rep = rp
        /\ rd = ReaderOf(tb, rp)
  /\ pc = "idle" /\ cur = <<>> /\ rows = <<>> /\ gcur = NoTerm
  /\ buf = Tr.from.buf
  /\ bad = "" /\ hist = <<>>

---------------------------------------------------------------------------
(* The inductive step of the Tier-1 theorem, evaluated on the REAL edge (independent of what PyWriter would do):     *)
(* from the reader state that mirrors the real writer state, the rows the REAL call put into the flow are read by    *)
(* the Tier-1 reader; they must be valid, denote exactly the statements / declarations of the call, leave no graph   *)
(* open, and the reader must end up mirroring the REAL successor state.  The initial real state is mirrored by the   *)
(* reader that has seen the options row; so, by induction over the walked graph (every reachable state x every       *)
(* call), every history of calls inside the slice is written as a valid stream that denotes its input.              *)
RECURSIVE Items(_, _, _, _)
Items(r, rws, i, acc) ==
  IF i > Len(rws) \/ r.err # "" THEN [rd |-> r, items |-> acc]
  ELSE LET r2 == RdStep(r, rws[i])
       IN Items(r2, rws, i + 1, IF r2.err = "" /\ r2.n > r.n THEN Append(acc, r2.item) ELSE acc)

StmtDen(st, g) ==
  IF PType = PT_TRIPLES THEN [s |-> Den(st[1]), p |-> Den(st[2]), o |-> Den(st[3])]
  ELSE IF PType = PT_QUADS THEN [s |-> Den(st[1]), p |-> Den(st[2]), o |-> Den(st[3]), g |-> Den(st[4])]
  ELSE [s |-> Den(st[1]), p |-> Den(st[2]), o |-> Den(st[3]), g |-> g]

ExpOf(ops) ==
  LET g == IF ops[1].op = "gs" THEN Den(ops[1].g) ELSE [k |-> "none"]
      RECURSIVE E(_)
      E(i) == IF i > Len(ops) THEN <<>>
              ELSE IF ops[i].op = "stmt" THEN <<StmtDen(ops[i].st, g)>> \o E(i + 1)
              ELSE IF ops[i].op = "ns" THEN <<[ns |-> ops[i].ns[1], iri |-> ops[i].ns[2] \o ops[i].ns[3]]>> \o E(i + 1)
              ELSE E(i + 1)
  IN E(1)

KeyReader(k) ==
  ReaderOf([N |-> TabOf(k.N), P |-> TabOf(k.P), D |-> TabOf(k.D), C |-> NoClaims], <<k.rep[1], k.rep[2], k.rep[3], k.rep[4]>>)

Ind ==
  LET run == Items(KeyReader(Tr.from), Tr.rows, 1, <<>>)
      exp == ExpOf(Tr.ops)
      r   == run.rd
  IN IF r.err # "" THEN "Valid:" \o r.err
     ELSE IF "N" \notin DOMAIN Tr.to                        \* the real call raised
       THEN IF Len(run.items) < Len(exp) /\ SubSeq(exp, 1, Len(run.items)) = run.items THEN "ok" ELSE "Faithful:refused-call-left-a-trace"
     ELSE IF run.items # exp THEN "Faithful:items"
     ELSE IF r.gopen THEN "Valid:graph-left-open"
     ELSE LET m == KeyReader(Tr.to) IN
          IF r.names # m.names THEN "Mirror:names" ELSE IF r.pfx # m.pfx THEN "Mirror:prefixes" ELSE IF r.dts # m.dts THEN "Mirror:datatypes"
          ELSE IF <<r.lna, r.lpa, r.lda>> # <<m.lna, m.lpa, m.lda>> THEN "Mirror:last-assigned"
          ELSE IF <<r.lnu, r.lpu>> # <<m.lnu, m.lpu>> THEN "Mirror:last-used"
          ELSE IF r.prev # m.prev THEN "Mirror:previous-terms"
          ELSE "ok"

ReportInd == (hist = <<>> /\ pc = "idle") => PrintT("IND " \o ToJson([id |-> Tr.id, ind |-> Ind]))
---------------------------------------------------------------------------

Op == Tr.ops[Len(hist) + 1]            \* every op appends exactly one record to hist when it completes (or is refused)

TNext ==
  /\ UNCHANGED tid
  /\ Len(hist) < Len(Tr.ops) /\ pc # "failed"
  /\ \/ (Op.op = "stmt" /\ Begin)
     \/ (Op.op = "stmt" /\ pc = "slot" /\ (SlotStep(Op.st[Len(cur) + 1]) \/ SlotReject(Op.st[Len(cur) + 1])))
     \/ (Op.op = "stmt" /\ Commit)
     \/ (Op.op = "ns" /\ Namespace(Op.ns))
     \/ (Op.op = "gs" /\ GraphBegin(Op.g))
     \/ (Op.op = "ge" /\ GraphEnd)

Report ==
  ((pc = "idle" /\ Len(hist) = Len(Tr.ops)) \/ pc = "failed") =>
     PrintT("STEP " \o ToJson([id |-> Tr.id, bad |-> bad, rows |-> [i \in 1..Len(hist) |-> hist[i].rows],
                               to |-> IF pc = "failed" THEN [failed |-> TRUE] ELSE IdleKey]))
=============================================================================
