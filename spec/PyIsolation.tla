----------------------------- MODULE PyIsolation -----------------------------
(***************************************************************************)
(* Tier 2 / Tier 1 -- independence of streams (property C12).               *)
(*                                                                          *)
(* Every stream (serializer pipeline) owns its lookup table, its repeated   *)
(* terms and its flow; a workload is a fixed sequence of statements, a step *)
(* encodes the next one (one generator step of the real pipeline).  Next    *)
(* interleaves the steps of the streams arbitrarily.  What a stream emits   *)
(* must be what it emits when it runs alone:  Isolated.                     *)
(*                                                                          *)
(* Statements are abstracted to <<key, term>>: `key` needs a lookup entry   *)
(* the first time the stream sees it, `term` is elided when it repeats the  *)
(* previous statement's term of that stream.                                *)
(*                                                                          *)
(* Rows first go into the stream's frame flow (a buffer) and reach its      *)
(* output when the flow is flushed (every FlushEvery statements and at the  *)
(* end).                                                                    *)
(* SharedState = "none" is the code.  "rep", "table" and "flow" are         *)
(* deliberately wrong designs (repeated terms / lookup table / row buffer   *)
(* as state shared between streams: a class attribute, a module-level       *)
(* default encoder, a flow object stored back into a shared options         *)
(* object); TLC must find Isolated violated for each of them, which shows   *)
(* the invariant is not vacuous.                                            *)
(* TLC also enumerates every interleaving (PrintSchedule) for the harness,  *)
(* which imposes each one on real pipelines.                                *)
(***************************************************************************)
EXTENDS Integers, Sequences, FiniteSets, TLC, Json

CONSTANTS Streams, Work, SharedState, FlushEvery

VARIABLES pos,      \* [stream -> statements encoded]
          table,    \* [stream -> set of keys with an entry]   (index "*" when shared)
          rep,      \* [stream -> previous term]
          flow,     \* [stream -> rows buffered in the frame flow]
          out,      \* [stream -> rows emitted]
          sched     \* the interleaving so far
vars == <<pos, table, rep, flow, out, sched>>

Own(s, what) == IF SharedState = what THEN "*" ELSE s
Keys == Streams \cup {"*"}

Init ==
  /\ pos = [s \in Streams |-> 0]
  /\ table = [s \in Keys |-> {}]
  /\ rep = [s \in Keys |-> "none"]
  /\ flow = [s \in Keys |-> <<>>]
  /\ out = [s \in Streams |-> <<>>]
  /\ sched = <<>>

RowsFor(st, tab, prev) ==        \* entry row if the key is new, then the statement row (term elided if repeated)
  (IF st[1] \in tab THEN <<>> ELSE <<<<"entry", st[1]>>>>)
  \o << <<"stmt", st[1], IF st[2] = prev THEN "elided" ELSE st[2]>> >>

Step(s) ==
  /\ pos[s] < Len(Work[s])
  /\ LET st == Work[s][pos[s] + 1]
         t  == Own(s, "table")
         r  == Own(s, "rep")
         f  == Own(s, "flow")
         buffered == flow[f] \o RowsFor(st, table[t], rep[r])
         flush == (pos[s] + 1) % FlushEvery = 0 \/ pos[s] + 1 = Len(Work[s])      \* frame_from_bounds / final flush
     IN /\ IF flush THEN out' = [out EXCEPT ![s] = @ \o buffered] /\ flow' = [flow EXCEPT ![f] = <<>>]
                 ELSE out' = out /\ flow' = [flow EXCEPT ![f] = buffered]
        /\ table' = [table EXCEPT ![t] = @ \cup {st[1]}]
        /\ rep' = [rep EXCEPT ![r] = st[2]]
  /\ pos' = [pos EXCEPT ![s] = @ + 1]
  /\ sched' = Append(sched, s)

Next == \E s \in Streams : Step(s)
Spec == Init /\ [][Next]_vars

RECURSIVE Solo(_, _, _, _)
Solo(w, i, tab, prev) ==
  IF i > Len(w) THEN <<>>
  ELSE RowsFor(w[i], tab, prev) \o Solo(w, i + 1, tab \cup {w[i][1]}, w[i][2])

Done == \A s \in Streams : pos[s] = Len(Work[s])
Emitted(s) == out[s] \o (IF SharedState = "flow" THEN <<>> ELSE flow[s])       \* what the stream has produced so far
Isolated == \A s \in Streams :
              /\ (SharedState # "flow" => Emitted(s) = Solo(SubSeq(Work[s], 1, pos[s]), 1, {}, "none"))
              /\ (pos[s] = Len(Work[s]) => out[s] = Solo(Work[s], 1, {}, "none"))
PrintSchedule == Done => PrintT("SCHEDULE " \o ToJson(sched))
=============================================================================
