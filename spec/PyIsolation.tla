----------------------------- MODULE PyIsolation -----------------------------
(***************************************************************************)
(* Tier 2 / Tier 1 -- independence of streams (property C12).               *)
(*                                                                          *)
(* Every stream (serializer pipeline) owns its lookup table, its repeated   *)
(* terms and its flow; a workload is a fixed sequence of statements, a step *)
(* encodes the next one (one generator step of the real pipeline).  Next    *)
(* interleaves the steps of the streams arbitrarily.  What a stream emits   *)
(* must be what it emits when it runs alone:  Isolated.                     *)
(*                                                                          *)
(* Statements are abstracted to <<key, term>>: `key` needs a lookup entry   *)
(* the first time the stream sees it, `term` is elided when it repeats the  *)
(* previous statement's term of that stream.                                *)
(*                                                                          *)
(* Rows first go into the stream's frame flow (a buffer) and reach its      *)
(* output when the flow is flushed (every FlushEvery statements and at the  *)
(* end).                                                                    *)
(* SharedState = "none" is the code.  "rep", "table" and "flow" are         *)
(* deliberately wrong designs (repeated terms / lookup table / row buffer   *)
(* as state shared between streams: a class attribute, a module-level       *)
(* default encoder, a flow object stored back into a shared options         *)
(* object); TLC must find Isolated violated for each of them, which shows   *)
(* the invariant is not vacuous.                                            *)
(* Parsers are processes of the same system: a parser reads the solo rows   *)
(* of one workload row by row into its own decoder table (id -> key) and    *)
(* its own previous term; what it yields must be that workload's statements *)
(* (IsolatedRead).  "rtable" and "rrep" are the wrong designs on that side  *)
(* (decoder tables built from a cached template that shares its storage;    *)
(* previous terms as a class attribute).                                    *)
(* TLC also enumerates every interleaving (PrintSchedule) for the harness,  *)
(* which imposes each one on real pipelines.                                *)
(***************************************************************************)
EXTENDS Integers, Sequences, FiniteSets, TLC, Json

CONSTANTS Streams, Work, SharedState, FlushEvery,
          Parsers, Src          \* parser processes and the workload each one reads (Src[p] \in DOMAIN Work)

VARIABLES pos,      \* [stream -> statements encoded]
          table,    \* [stream -> sequence of keys; the id of a key is its position]   (index "*" when shared)
          rep,      \* [stream -> previous term]
          flow,     \* [stream -> rows buffered in the frame flow]
          out,      \* [stream -> rows emitted]
          rpos,     \* [parser -> rows consumed]
          rtable,   \* [parser -> id -> key]                                            (index "*" when shared)
          rrep,     \* [parser -> previous term]
          items,    \* [parser -> statements yielded]
          sched     \* the interleaving so far
vars == <<pos, table, rep, flow, out, rpos, rtable, rrep, items, sched>>

Own(s, what) == IF SharedState = what THEN "*" ELSE s
Keys == Streams \cup Parsers \cup {"*"}
NoFn == [x \in {} |-> x]

Init ==
  /\ pos = [s \in Streams |-> 0]
  /\ table = [s \in Keys |-> <<>>]
  /\ rep = [s \in Keys |-> "none"]
  /\ flow = [s \in Keys |-> <<>>]
  /\ out = [s \in Streams |-> <<>>]
  /\ rpos = [p \in Parsers |-> 0]
  /\ rtable = [p \in Keys |-> NoFn]
  /\ rrep = [p \in Keys |-> "none"]
  /\ items = [p \in Parsers |-> <<>>]
  /\ sched = <<>>

Has(tab, k) == \E i \in DOMAIN tab : tab[i] = k
IdOf(tab, k) == CHOOSE i \in DOMAIN tab : tab[i] = k

RowsFor(st, tab, prev) ==        \* entry row (id, key) if the key is new, then the statement row (id; term elided if repeated)
  LET new == ~Has(tab, st[1])
      id  == IF new THEN Len(tab) + 1 ELSE IdOf(tab, st[1])
  IN (IF new THEN <<<<"entry", id, st[1]>>>> ELSE <<>>)
     \o << <<"stmt", id, IF st[2] = prev THEN "elided" ELSE st[2]>> >>

Learn(tab, k) == IF Has(tab, k) THEN tab ELSE Append(tab, k)

Step(s) ==
  /\ pos[s] < Len(Work[s])
  /\ LET st == Work[s][pos[s] + 1]
         t  == Own(s, "table")
         r  == Own(s, "rep")
         f  == Own(s, "flow")
         buffered == flow[f] \o RowsFor(st, table[t], rep[r])
         flush == (pos[s] + 1) % FlushEvery = 0 \/ pos[s] + 1 = Len(Work[s])      \* frame_from_bounds / final flush
     IN /\ IF flush THEN out' = [out EXCEPT ![s] = @ \o buffered] /\ flow' = [flow EXCEPT ![f] = <<>>]
                 ELSE out' = out /\ flow' = [flow EXCEPT ![f] = buffered]
        /\ table' = [table EXCEPT ![t] = Learn(@, st[1])]
        /\ rep' = [rep EXCEPT ![r] = st[2]]
  /\ pos' = [pos EXCEPT ![s] = @ + 1]
  /\ sched' = Append(sched, s)
  /\ UNCHANGED <<rpos, rtable, rrep, items>>

RECURSIVE Solo(_, _, _, _)
Solo(w, i, tab, prev) ==
  IF i > Len(w) THEN <<>>
  ELSE RowsFor(w[i], tab, prev) \o Solo(w, i + 1, Learn(tab, w[i][1]), w[i][2])

Input(p) == Solo(Work[Src[p]], 1, <<>>, "none")       \* what the parser is given: the workload's solo stream

(* one generator step of a parser: rows are consumed up to and including the next statement row, which is yielded *)
RECURSIVE Consume(_, _, _)
Consume(rows, i, tab) ==         \* returns <<next position, table, the statement row>>
  IF rows[i][1] = "entry" THEN Consume(rows, i + 1, (rows[i][2] :> rows[i][3]) @@ tab)
  ELSE <<i, tab, rows[i]>>

RStep(p) ==
  /\ rpos[p] < Len(Input(p))
  /\ LET t == Own(p, "rtable")
         r == Own(p, "rrep")
         c == Consume(Input(p), rpos[p] + 1, rtable[t])
         row == c[3]
         term == IF row[3] = "elided" THEN rrep[r] ELSE row[3]
         key == IF row[2] \in DOMAIN c[2] THEN c[2][row[2]] ELSE "unresolved"
     IN /\ rpos' = [rpos EXCEPT ![p] = c[1]]
        /\ rtable' = [rtable EXCEPT ![t] = c[2]]
        /\ rrep' = [rrep EXCEPT ![r] = term]
        /\ items' = [items EXCEPT ![p] = Append(@, <<key, term>>)]
  /\ sched' = Append(sched, p)
  /\ UNCHANGED <<pos, table, rep, flow, out>>

Next == (\E s \in Streams : Step(s)) \/ (\E p \in Parsers : RStep(p))
Spec == Init /\ [][Next]_vars

Done == (\A s \in Streams : pos[s] = Len(Work[s])) /\ (\A p \in Parsers : rpos[p] = Len(Input(p)))
Emitted(s) == out[s] \o (IF SharedState = "flow" THEN <<>> ELSE flow[s])       \* what the stream has produced so far
Isolated == \A s \in Streams :
              /\ (SharedState # "flow" => Emitted(s) = Solo(SubSeq(Work[s], 1, pos[s]), 1, <<>>, "none"))
              /\ (pos[s] = Len(Work[s]) => out[s] = Solo(Work[s], 1, <<>>, "none"))
IsolatedRead == \A p \in Parsers : items[p] = SubSeq(Work[Src[p]], 1, Len(items[p]))
NoSchedView == <<pos, table, rep, flow, out, rpos, rtable, rrep, items>>     \* (VIEW for runs that only check the invariants: interleavings reaching one state merge)
PrintSchedule == Done => PrintT("SCHEDULE " \o ToJson(sched))
=============================================================================
