----------------------------- MODULE PyIsolation -----------------------------
(***************************************************************************)
(* Tier 2 / Tier 1 -- independence of streams (property C12).               *)
(*                                                                          *)
(* Every stream (serializer pipeline) owns its lookup table, its repeated   *)
(* terms and its flow; a workload is a fixed sequence of statements, a step *)
(* encodes the next one (one generator step of the real pipeline).  Next    *)
(* interleaves the steps of the streams arbitrarily.  What a stream emits   *)
(* must be what it emits when it runs alone:  Isolated.                     *)
(*                                                                          *)
(* Statements are abstracted to <<key, term>>: `key` needs a lookup entry   *)
(* the first time the stream sees it, `term` is elided when it repeats the  *)
(* previous statement's term of that stream.                                *)
(*                                                                          *)
(* SharedState = "none" is the code.  "rep" and "table" are deliberately    *)
(* wrong designs (repeated terms / lookup table as process-wide state: a    *)
(* class attribute, a module-level default encoder); TLC must find Isolated *)
(* violated for them, which shows the invariant is not vacuous.             *)
(* TLC also enumerates every interleaving (PrintSchedule) for the harness,  *)
(* which imposes each one on real pipelines.                                *)
(***************************************************************************)
EXTENDS Integers, Sequences, FiniteSets, TLC, Json

CONSTANTS Streams, Work, SharedState

VARIABLES pos,      \* [stream -> statements encoded]
          table,    \* [stream -> set of keys with an entry]   (index "*" when shared)
          rep,      \* [stream -> previous term]
          out,      \* [stream -> rows emitted]
          sched     \* the interleaving so far
vars == <<pos, table, rep, out, sched>>

Own(s, what) == IF SharedState = what THEN "*" ELSE s
Keys == Streams \cup {"*"}

Init ==
  /\ pos = [s \in Streams |-> 0]
  /\ table = [s \in Keys |-> {}]
  /\ rep = [s \in Keys |-> "none"]
  /\ out = [s \in Streams |-> <<>>]
  /\ sched = <<>>

RowsFor(st, tab, prev) ==        \* entry row if the key is new, then the statement row (term elided if repeated)
  (IF st[1] \in tab THEN <<>> ELSE <<<<"entry", st[1]>>>>)
  \o << <<"stmt", st[1], IF st[2] = prev THEN "elided" ELSE st[2]>> >>

Step(s) ==
  /\ pos[s] < Len(Work[s])
  /\ LET st == Work[s][pos[s] + 1]
         t  == Own(s, "table")
         r  == Own(s, "rep")
     IN /\ out' = [out EXCEPT ![s] = @ \o RowsFor(st, table[t], rep[r])]
        /\ table' = [table EXCEPT ![t] = @ \cup {st[1]}]
        /\ rep' = [rep EXCEPT ![r] = st[2]]
  /\ pos' = [pos EXCEPT ![s] = @ + 1]
  /\ sched' = Append(sched, s)

Next == \E s \in Streams : Step(s)
Spec == Init /\ [][Next]_vars

RECURSIVE Solo(_, _, _, _)
Solo(w, i, tab, prev) ==
  IF i > Len(w) THEN <<>>
  ELSE RowsFor(w[i], tab, prev) \o Solo(w, i + 1, tab \cup {w[i][1]}, w[i][2])

Done == \A s \in Streams : pos[s] = Len(Work[s])
Isolated == \A s \in Streams : out[s] = Solo(SubSeq(Work[s], 1, pos[s]), 1, {}, "none")
PrintSchedule == Done => PrintT("SCHEDULE " \o ToJson(sched))
=============================================================================
