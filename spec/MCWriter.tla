----------------------------- MODULE MCWriter -----------------------------
(* Slice universes for PyWriter (DESIGN.md 6, C01): term pools as definitions, bound in the .cfg files *)
EXTENDS PyWriter

Iris(ps, ns) == {<<"iri", p, n>> : p \in ps, n \in ns}
Bn(b) == <<"bn", b>>
I(p, n) == <<"iri", p, n>>
PlainLit(l) == <<"lit", l, "", "">>
LangLit(l, lg) == <<"lit", l, lg, "">>
TypedLit(l, d) == <<"lit", l, "", d>>
DG == <<"dg">>
Bad == <<"bad">>
Empty == {}
One == 1

\* prefix slice: 3 prefixes incl. the empty one, table of 2, one name
PfxS == Iris({"a/", "b#", ""}, {"x"}) \cup {Bn("b1")}
PfxP == Iris({"a/", "b#", ""}, {"x"})
PfxO == Iris({"a/", "b#", ""}, {"x"}) \cup {PlainLit("l")}
PfxG == Iris({"a/", "b#"}, {"x"}) \cup {DG}

\* datatype slice: 3 datatypes + xsd:string + language, table of 2, generalized positions
DtLits == {TypedLit("1", "d:a"), TypedLit("1", "d:b"), TypedLit("1", "d:c"),
           TypedLit("s", XsdString), PlainLit("1"), LangLit("1", "en")}
DtS == DtLits \cup {Bn("b1")}
DtP == DtLits
DtO == DtLits
DtG == {DG, TypedLit("1", "d:a"), Bn("g")}

\* small datatype slice (quick tier)
DtqS == {Bn("b1"), TypedLit("1", "d:a")}
DtqP == {TypedLit("1", "d:a"), TypedLit("1", "d:b")}
DtqO == DtLits

\* small name slice (quick tier): 3 names, model-only table of 2
NameQ == Iris({"a/"}, {"x", "y", "z"})
Two == 2

\* name slice: 4 names, prefixes disabled or one prefix
NameI == Iris({"a/"}, {"w", "x", "y", "z"})

\* quoted-triple slice
QtInner == Iris({"a/", "b/"}, {"x", "y"})
QtTerms == {<<"qt", s, <<"iri", "a/", "x">>, o>> : s \in Iris({"a/"}, {"x", "y"}), o \in Iris({"a/", "b/"}, {"y"}) \cup {PlainLit("l")}}
QtS == QtTerms \cup Iris({"a/"}, {"x"})
QtP == Iris({"a/"}, {"x", "y"}) \cup {<<"qt", <<"iri", "a/", "y">>, <<"iri", "a/", "x">>, PlainLit("l")>>}     \* a quoted triple as predicate too (generalized RDF-star)
QtO == QtTerms \cup Iris({"b/"}, {"y"})

\* rejection slice
End == <<"end">>          \* the statement tuple ends here (malformed tuple: next(terms) raises)
RejQt == {<<"qt", <<"iri", "b/", "y">>, <<"iri", "a/", "x">>, Bad>>,
          <<"qt", <<"iri", "c/", "z">>, Bad, <<"iri", "a/", "x">>>>,
          <<"qt", <<"iri", "b/", "y">>, TypedLit("1", "d:a"), <<"iri", "a/", "x">>>>,
          <<"qt", <<"iri", "c/", "z">>, <<"iri", "a/", "x">>, <<"qt", <<"iri", "b/", "w">>, <<"iri", "a/", "x">>, Bad>>>>}
RejS == Iris({"a/", "b/"}, {"x", "y"}) \cup {Bad, End, Bn("b1"), PlainLit("l")} \cup RejQt     \* terms that use no table at all: the
RejP == Iris({"a/"}, {"x", "y"}) \cup {Bad, End, Bn("b1")}                                      \* rejected row leaves only rep behind
RejO == Iris({"a/", "b/"}, {"x"}) \cup {TypedLit("1", "d:a"), PlainLit("l"), Bad, End} \cup RejQt
RejG == {DG, <<"iri", "a/", "x">>, <<"iri", "b/", "y">>, Bad, End, TypedLit("1", "d:a")}

\* quads / graphs slice: graph names of every kind
QdS == Iris({"a/"}, {"x", "y"}) \cup {Bn("b1")}
QdP == Iris({"a/"}, {"x"})
QdO == Iris({"a/", "b/"}, {"x"}) \cup {PlainLit("l")}
QdG == {DG, <<"iri", "a/", "x">>, <<"iri", "b/", "y">>, Bn("g"), PlainLit("l")}

\* flow slice: tiny pool, buffer fill is what matters
FlS == Iris({"a/"}, {"x", "y"})
FlP == Iris({"a/"}, {"x"})
FlO == Iris({"a/"}, {"x", "y"}) \cup {PlainLit("l")}
FlG == {DG, <<"iri", "a/", "x">>}

\* mixed universe for simulation: more names than the minimum name table, more prefixes/datatypes than slots
MixNames == {"n0", "n1", "n2", "n3", "n4", "n5", "n6", "n7", "n8", "n9", "w", "x", ""}     \* "": IRIs that END with the separator (namespace IRIs), and the empty IRI
MixPfx   == {"a/", "b#", "b/", "c/", "d#", ""}
MixIri   == Iris(MixPfx, MixNames)
MixLits  == {PlainLit("l"), PlainLit("1"), LangLit("l", "en"), LangLit("l2", "en"), TypedLit("1", "d:a"),
             TypedLit("1", "d:b"), TypedLit("l", "d:c"), TypedLit("s", XsdString)}
MixQt    == {<<"qt", <<"iri", "a/", "n0">>, <<"iri", "b#", "n1">>, PlainLit("l")>>,
             <<"qt", <<"iri", "c/", "n8">>, <<"iri", "a/", "n0">>, <<"iri", "d#", "n9">>>>,
             <<"qt", Bn("b1"), <<"iri", "", "w">>, <<"qt", <<"iri", "a/", "x">>, <<"iri", "b/", "n2">>, TypedLit("1", "d:a")>>>>}
SameText == {Bn("w"), Bn("x"), PlainLit("w")}        \* a blank node / literal whose text equals that of the IRIs <w>, <x> (empty prefix)
MixS == MixIri \cup {Bn("b1"), Bn("b2")} \cup MixQt \cup {PlainLit("l")} \cup SameText
MixP == MixIri \cup {Bn("b1"), TypedLit("1", "d:a")} \cup MixQt
MixO == MixIri \cup {Bn("b1"), Bn("b2")} \cup MixLits \cup MixQt \cup SameText
MixG == {DG, Bn("g"), Bn("x"), PlainLit("l"), TypedLit("1", "d:b")} \cup Iris({"a/", "b#", ""}, {"n0", "n3", "x"})
MixNs == {<<"ex", "a/", "">>, <<"", "b#", "">>, <<"n", "", "x">>, <<"e2", "c/", "n4">>, <<"rdf", "d#", "">>}

\* dense RDF 1.1 universe: tiny pools, so consecutive statements repeat terms all the time -- among them the terms that are FALSY as Python objects in rdflib
\* (numeric zero, boolean false, empty lexical forms), which an `if previous and previous == term` would never elide
XsdInteger == "http://www.w3.org/2001/XMLSchema#integer"
XsdBoolean == "http://www.w3.org/2001/XMLSchema#boolean"
DenseS == {I("a/", "x"), I("a/", "y"), Bn("b1")}
DenseP == {I("a/", "x"), I("b#", "y")}
DenseO == {TypedLit("0", XsdInteger), TypedLit("false", XsdBoolean), PlainLit(""), LangLit("", "en"), PlainLit("l"), I("a/", "x")}
DenseG == {DG, I("a/", "x"), Bn("g")}

\* RDF 1.1 only (rdflib can carry it)
R11S == MixIri \cup {Bn("b1"), Bn("b2"), Bn("w"), Bn("x")}
R11P == MixIri
R11O == MixIri \cup {Bn("b1"), Bn("b2"), Bn("w"), Bn("x"), PlainLit("w")} \cup MixLits
R11G == {DG, Bn("g"), Bn("x")} \cup Iris({"a/", "b#", ""}, {"n0", "n3", "x"})

\* C18: statements that need more entries than an enabled table has slots
C18Iri == Iris({"a/", "b#", "c/", "d#", ""}, {"x", "y"})          \* incl. IRIs without a namespace part: the empty prefix takes a slot too
C18IriG == C18Iri \cup {DG}
C18Dt == {TypedLit("1", "d:a"), TypedLit("1", "d:b"), TypedLit("1", "d:c"), TypedLit("2", "d:d"), Bn("b1")}
C18DtG == {TypedLit("1", "d:a"), TypedLit("1", "d:e"), DG}
C18QtA == <<"qt", I("a/", "n0"), I("a/", "n1"), <<"qt", I("a/", "n2"), I("a/", "n3"), I("a/", "n4")>>>>
C18QtB == <<"qt", I("a/", "n5"), I("a/", "n6"), <<"qt", I("a/", "n7"), I("a/", "n8"), I("a/", "n9")>>>>
C18QtC == <<"qt", I("a/", "n0"), I("a/", "n5"), <<"qt", I("a/", "w"), I("a/", "x"), <<"qt", I("a/", "y"), I("a/", "z"), I("a/", "n1")>>>>>>
C18NmS == {C18QtA, C18QtB, I("a/", "n0")}
C18NmP == {I("a/", "w"), I("a/", "n0")}
C18NmO == {C18QtA, C18QtB, C18QtC, I("a/", "x")}

\* prefix table disabled: the name table holds WHOLE IRIs, so IRIs sharing a local name across namespaces are distinct entries
C18QtX == <<"qt", I("a/", "n0"), I("b/", "n0"), <<"qt", I("c/", "n0"), I("d#", "n0"), I("a/", "n1")>>>>
C18QtY == <<"qt", I("b/", "n1"), I("c/", "n1"), <<"qt", I("d#", "n1"), I("", "n0"), I("", "n1")>>>>
C18NxS == {C18QtX, I("a/", "n0")}
C18NxP == {I("b/", "n0"), I("a/", "n2")}
C18NxO == {C18QtY, C18QtX, I("c/", "n0")}

\* C18 with mid-sized tables: 4 slots, statements (quads, quoted triples) needing 5-7 entries
C18Iri6 == Iris({"a/", "b#", "c/", "d#", "e/", "f#", ""}, {"x"})
C18Qt6 == {<<"qt", I("a/", "x"), I("b#", "x"), I("c/", "x")>>, <<"qt", I("d#", "x"), I("e/", "x"), <<"qt", I("f#", "x"), I("a/", "x"), I("", "x")>>>>}
C18S6 == C18Iri6 \cup C18Qt6
C18O6 == C18Iri6 \cup C18Qt6
C18Dt6 == {TypedLit("1", "d:a"), TypedLit("1", "d:b"), TypedLit("1", "d:c"), TypedLit("1", "d:d"), TypedLit("1", "d:e"), TypedLit("1", "d:f"), Bn("b1")}

\* small refusal slices for the state-graph comparison (every reachable state x every call, refusals included)
C18IriS == Iris({"a/", "b#", ""}, {"x"}) \cup {<<"iri", "a/", "y">>}
C18IriQ == Iris({"a/", "b#"}, {"x"})
C18IriG3 == Iris({"a/", "b#", "c/"}, {"x"}) \cup {DG}
C18DtS == {TypedLit("1", "d:a"), TypedLit("1", "d:b"), TypedLit("2", "d:a"), Bn("b1")}

NsSmall == {<<"ex", "a/", "">>, <<"", "b#", "">>, <<"n", "", "x">>}
=============================================================================
