---------------------------- MODULE TraceFraming ----------------------------
(***************************************************************************)
(* TLC as judge of recorded truncation runs (property C10).                 *)
(*                                                                          *)
(* A record is one execution of the real streaming parser on a delimited    *)
(* stream cut at byte offset `cut`:                                         *)
(*   [id, ends, counts, cut, yielded, outcome]                              *)
(* ends[k]   : offset just after frame k (length prefix included)           *)
(* counts[k] : number of items (statements / namespace declarations) of     *)
(*             frame k in the ORIGINAL stream                               *)
(* yielded   : how many items the parser yielded, and prefixOK: whether     *)
(*             they equal the first `yielded` items of the original         *)
(* outcome   : "eof" | "raise"                                              *)
(* Clauses:  P1 what was yielded is a prefix of the original                *)
(*           P2 every item of every frame wholly before the cut is yielded  *)
(*           P3 nothing of a frame that was not wholly delivered is yielded *)
(*           P4 a cut exactly on a frame boundary (or no cut) ends cleanly  *)
(*              -- recorded as Tier-2 expectation only                      *)
(***************************************************************************)
EXTENDS Integers, Sequences, TLC, Json, IOUtils

Batch == JsonDeserialize(IOEnv.TRACE_FILE)
VARIABLES tid, done
Tr == Batch[tid]

RECURSIVE Delivered(_, _)
Delivered(tr, k) == IF k = 0 THEN 0 ELSE Delivered(tr, k - 1) + (IF tr.ends[k] <= tr.cut THEN tr.counts[k] ELSE 0)

Verdict(tr) ==
  LET whole == Delivered(tr, Len(tr.ends)) IN
  IF ~tr.prefixOK THEN "P1-not-a-prefix"
  ELSE IF tr.yielded < whole THEN "P2-lost-statement-of-delivered-frame"
  ELSE IF tr.yielded > whole THEN "P3-yielded-from-undelivered-frame"
  ELSE "ok"
OnBoundary(tr) == tr.cut = 0 \/ \E k \in 1..Len(tr.ends) : tr.ends[k] = tr.cut

Init == tid \in 1..Len(Batch) /\ done = FALSE
Next == /\ ~done /\ done' = TRUE /\ UNCHANGED tid
        /\ PrintT("VERDICT " \o ToJson([id |-> Tr.id, verdict |-> Verdict(Tr),
                                         expect |-> IF OnBoundary(Tr) /\ Tr.cut > 2 THEN "eof" ELSE "raise"]))
=============================================================================
