----------------------------- MODULE LookupAbs -----------------------------
(***************************************************************************)
(* The lookup-table pair (LookupEncoder / LookupDecoder) for an ARBITRARY   *)
(* table size, an arbitrary key set and an ARBITRARY eviction choice, with  *)
(* a machine-checked proof (TLAPS) that the reader mirrors the writer:      *)
(*                                                                          *)
(*   THEOREM Spec => []Inv            (module LookupAbsProofs)              *)
(*                                                                          *)
(* Inv says: the reader's table and registers equal the writer's, every     *)
(* emitted entry id and term id lies in 0..Size, and every term index       *)
(* emitted so far (explicit or zero form) resolved on the reader to the key *)
(* the writer meant (history variable ok).                                  *)
(*                                                                          *)
(* Which slot a full table re-uses (`ix` in Miss) is left open: the mirror  *)
(* property does not depend on the eviction policy.  LRU -- what pyjelly    *)
(* does -- is one refinement; TLC checks that spec/PyLookup.tla (the model  *)
(* bound to the code by the state-graph comparison of C05) implements this  *)
(* module for sizes 1..4 (harness/drivers/c05.py), and Apalache checks the  *)
(* LRU-specific inductive invariant for sizes 8 and 16.                     *)
(*                                                                          *)
(* The three term-index rules of the format (Rule):                         *)
(*   name      0 = last used id + 1                                         *)
(*   prefix    0 = last used id again; before any use, 0 = the empty prefix *)
(*   datatype  always explicit                                              *)
(***************************************************************************)
EXTENDS Naturals

CONSTANTS Size, Key, Empty, Rule,
          NoKey          \* what an unfilled slot holds

ASSUME Assumptions ==
  /\ Size \in Nat /\ Size >= 1
  /\ Empty \in Key /\ NoKey \notin Key
  /\ Rule \in {"name", "prefix", "datatype"}

Idx  == 1..Size
Slot == Key \cup {NoKey}

VARIABLES n,        \* number of slots filled so far (the table fills 1, 2, ... Size, then re-uses slots)
          wkey,     \* writer: slot -> key
          rkey,     \* reader: slot -> key
          lastA,    \* writer: last assigned entry id
          lastU,    \* writer: last used term id
          rLastA, rLastU,   \* the reader's registers
          pc, cur,  \* "idle" / "term" (an entry was looked up or made, its index `cur` is about to be referenced)
          eid, tid, \* the entry id / term id put on the wire by the use in progress (0 if none)
          ok        \* history: every reference so far resolved to the key the writer meant
vars == <<n, wkey, rkey, lastA, lastU, rLastA, rLastU, pc, cur, eid, tid, ok>>

Init ==
  /\ n = 0
  /\ wkey = [i \in Idx |-> NoKey] /\ rkey = [i \in Idx |-> NoKey]
  /\ lastA = 0 /\ lastU = 0 /\ rLastA = 0 /\ rLastU = 0
  /\ pc = "idle" /\ cur = 0 /\ eid = 0 /\ tid = 0 /\ ok = TRUE

Hit(i) ==                       \* LookupEncoder.encode_entry_index: the key is resident, no entry row
  /\ pc = "idle" /\ i \in 1..n
  /\ cur' = i /\ pc' = "term" /\ eid' = 0 /\ tid' = 0
  /\ UNCHANGED <<n, wkey, rkey, lastA, lastU, rLastA, rLastU, ok>>

Miss(k, ix) ==                  \* a new key: slot ix is filled (next free slot, or ANY slot of a full table), entry row (e, k)
  /\ pc = "idle" /\ k \in Key /\ ix \in Idx
  /\ (n < Size => ix = n + 1)
  /\ n' = IF n < Size THEN n + 1 ELSE n
  /\ LET e == IF ix = lastA + 1 THEN 0 ELSE ix                \* encode_entry_index: 0 if sequential
         r == IF e = 0 THEN rLastA + 1 ELSE e                 \* LookupDecoder.assign_entry
     IN /\ wkey' = [wkey EXCEPT ![ix] = k]
        /\ rkey' = [rkey EXCEPT ![r] = k]
        /\ lastA' = ix /\ rLastA' = r /\ eid' = e
        /\ ok' = (ok /\ r \in Idx)
  /\ cur' = ix /\ pc' = "term" /\ tid' = 0
  /\ UNCHANGED <<lastU, rLastU>>

TermName ==
  LET t   == IF cur = lastU + 1 THEN 0 ELSE cur               \* encode_name_term_index
      ref == IF t = 0 THEN rLastU + 1 ELSE t                  \* decode_name_term_index
  IN /\ lastU' = cur /\ rLastU' = ref /\ tid' = t
     /\ ok' = (ok /\ ref \in Idx /\ rkey[ref] = wkey[cur])

TermDatatype ==
  /\ lastU' = cur /\ rLastU' = cur /\ tid' = cur
  /\ ok' = (ok /\ cur \in Idx /\ rkey[cur] = wkey[cur])

TermPrefix ==
  IF wkey[cur] = Empty /\ lastU = 0
  THEN /\ tid' = 0 /\ UNCHANGED <<lastU, rLastU>>             \* "" before any prefix was used: 0, and the reader answers ""
       /\ ok' = (ok /\ rLastU = 0)
  ELSE LET t   == IF lastU = 0 THEN cur ELSE IF cur = lastU THEN 0 ELSE cur     \* encode_prefix_term_index
           ref == IF t = 0 THEN rLastU ELSE t                                   \* decode_prefix_term_index
       IN /\ lastU' = cur /\ rLastU' = ref /\ tid' = t
          /\ ok' = (ok /\ ref \in Idx /\ rkey[ref] = wkey[cur])

Term ==
  /\ pc = "term" /\ pc' = "idle"
  /\ UNCHANGED <<n, wkey, rkey, lastA, rLastA, cur, eid>>
  /\ CASE Rule = "name" -> TermName
       [] Rule = "prefix" -> TermPrefix
       [] Rule = "datatype" -> TermDatatype

Next == (\E i \in Idx : Hit(i)) \/ (\E k \in Key, ix \in Idx : Miss(k, ix)) \/ Term
Spec == Init /\ [][Next]_vars

Inv ==
  /\ n \in 0..Size /\ lastA \in 0..Size /\ lastU \in 0..Size /\ cur \in 0..Size
  /\ wkey \in [Idx -> Slot]
  /\ rkey = wkey /\ rLastA = lastA /\ rLastU = lastU               \* Mirrored
  /\ pc \in {"idle", "term"} /\ (pc = "term" => cur \in Idx)
  /\ eid \in 0..Size /\ tid \in 0..Size                             \* Bounded
  /\ ok = TRUE                                                      \* Resolves

=============================================================================
