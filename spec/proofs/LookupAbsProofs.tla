---------------------------- MODULE LookupAbsProofs ----------------------------
(* TLAPS proof of  LookupAbs!Spec => []LookupAbs!Inv  for every Size, Key set, Rule and eviction choice.   *)
(* Checked by  tlapm LookupAbsProofs.tla  (C05 re-runs it, together with a wrong variant that must fail). *)
EXTENDS LookupAbs, TLAPS

LEMMA InitInv == Init => Inv
  BY Assumptions DEF Init, Inv, Idx, Slot

LEMMA HitInv == ASSUME Inv, NEW i \in Idx, Hit(i) PROVE Inv'
  BY Assumptions DEF Inv, Hit, Idx, Slot

LEMMA MissInv == ASSUME Inv, NEW k \in Key, NEW ix \in Idx, Miss(k, ix) PROVE Inv'
  <1> DEFINE e == IF ix = lastA + 1 THEN 0 ELSE ix
             r == IF e = 0 THEN rLastA + 1 ELSE e
  <1>1. r = ix
    BY Assumptions DEF Inv, Idx
  <1>2. wkey' = [wkey EXCEPT ![ix] = k] /\ rkey' = [rkey EXCEPT ![ix] = k]
    BY <1>1 DEF Miss
  <1>3. wkey' \in [Idx -> Slot] /\ rkey' = wkey'
    BY <1>2 DEF Inv, Slot
  <1>4. e \in 0..Size /\ ix \in 0..Size
    BY Assumptions DEF Idx
  <1> QED
    BY <1>1, <1>2, <1>3, <1>4, Assumptions DEF Inv, Miss, Idx

LEMMA TermInv == ASSUME Inv, Term PROVE Inv'
  <1>1. cur \in Idx /\ cur \in 0..Size /\ pc = "term"
    BY Assumptions DEF Inv, Term, Idx
  <1>2. CASE Rule = "name"
    <2>1. TermName
      BY <1>2 DEF Term
    <2> QED
      BY <1>1, <2>1, Assumptions DEF Inv, Term, TermName, Idx
  <1>3. CASE Rule = "datatype"
    <2>1. TermDatatype
      BY <1>3 DEF Term
    <2> QED
      BY <1>1, <2>1, Assumptions DEF Inv, Term, TermDatatype, Idx
  <1>4. CASE Rule = "prefix"
    <2>1. TermPrefix
      BY <1>4 DEF Term
    <2> QED
      BY <1>1, <2>1, Assumptions DEF Inv, Term, TermPrefix, Idx
  <1> QED
    BY <1>2, <1>3, <1>4, Assumptions

LEMMA NextInv == Inv /\ [Next]_vars => Inv'
  <1> SUFFICES ASSUME Inv, [Next]_vars PROVE Inv'
    OBVIOUS
  <1>1. CASE \E i \in Idx : Hit(i)
    BY <1>1, HitInv
  <1>2. CASE \E k \in Key, ix \in Idx : Miss(k, ix)
    BY <1>2, MissInv
  <1>3. CASE Term
    BY <1>3, TermInv
  <1>4. CASE UNCHANGED vars
    BY <1>4 DEF Inv, vars
  <1> QED
    BY <1>1, <1>2, <1>3, <1>4 DEF Next

THEOREM Safety == Spec => []Inv
  BY InitInv, NextInv, PTL DEF Spec
=============================================================================
