------------------------------ MODULE PyHeader ------------------------------
(***************************************************************************)
(* Tier 1 -- what a reader must do with a stream header (property C13),     *)
(* and Tier 2 -- what pyjelly's writer puts into it.                        *)
(*                                                                          *)
(* Read side: a header is [pt, lt, mn, mp, md, ver]; a parser call is       *)
(* [parser in {"flat","grouped"}, strict].  ReadAccepts is the contract:    *)
(*   - physical type is TRIPLES, QUADS or GRAPHS                            *)
(*   - the physical/logical pair is not one the specification forbids       *)
(*   - name table >= 8, no table larger than 4096                           *)
(*   - protocol version not newer than 2                                    *)
(*   - with strict checking the flat parsers take exactly the flat logical  *)
(*     types and the grouped parsers exactly the grouped ones; without it   *)
(*     the logical type has no influence                                    *)
(* Write side: WriterAccepts and the header fields the writer must emit.    *)
(* TLC enumerates both lattices and prints the expected outcome of every    *)
(* point; the harness replays each on the real code.                        *)
(***************************************************************************)
EXTENDS Integers, Sequences, TLC, Json

CONSTANTS Quick

LTypes == {0, 1, 2, 3, 4, 13, 14, 114}
TriplesOnlyLT == {1, 3, 13}
FlatLT == {1, 2}
GroupedLT == {3, 4, 13, 14, 114}
SpecForbids(pt, lt) == pt # 0 /\ lt # 0 /\ ((pt = 1) # (lt \in TriplesOnlyLT))
MaxTable == 4096
MinNames == 8
MaxVersion == 2

Headers == [pt : 0..3, lt : LTypes,
            mn : {7, 8, 4096, 4097},
            mp : IF Quick THEN {0, 4096, 4097} ELSE {0, 1, 4096, 4097},
            md : IF Quick THEN {0, 4096, 4097} ELSE {0, 1, 4096, 4097},
            ver : IF Quick THEN {1, 2, 3} ELSE {0, 1, 2, 3}]
Calls == [parser : {"flat", "grouped"}, strict : BOOLEAN]

HeaderValid(h) ==
  /\ h.pt \in 1..3
  /\ ~SpecForbids(h.pt, h.lt)
  /\ h.mn >= MinNames /\ h.mn <= MaxTable /\ h.mp <= MaxTable /\ h.md <= MaxTable
  /\ h.ver <= MaxVersion
StrictOK(h, c) == ~c.strict \/ (IF c.parser = "flat" THEN h.lt \in FlatLT ELSE h.lt \in GroupedLT)
ReadAccepts(h, c) == HeaderValid(h) /\ StrictOK(h, c)

VARIABLES h, c, printed
Init == h \in Headers /\ c \in Calls /\ printed = FALSE
Decide == ~printed /\ printed' = TRUE /\ UNCHANGED <<h, c>>
       /\ PrintT("READ " \o ToJson([h |-> h, c |-> c, accept |-> ReadAccepts(h, c)]))
Spec == Init /\ [][Decide]_<<h, c, printed>>

(* consistency of the contract itself *)
NonStrictIgnoresLT ==        \* without strict checking, two headers differing only in a permitted logical type are treated alike
  \A lt2 \in LTypes : LET h2 == [h EXCEPT !.lt = lt2] IN
     (~c.strict /\ ~SpecForbids(h.pt, h.lt) /\ ~SpecForbids(h2.pt, h2.lt)) => (ReadAccepts(h, c) = ReadAccepts(h2, c))
StrictPartition ==           \* every specified logical type is flat or grouped, never both
  \A lt \in LTypes \ {0} : (lt \in FlatLT) # (lt \in GroupedLT)
=============================================================================
