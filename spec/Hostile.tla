------------------------------- MODULE Hostile -------------------------------
(***************************************************************************)
(* Property C17 -- structure-aware hostile inputs, and the two things the   *)
(* abstract parser loop must guarantee for ANY token sequence:              *)
(*   Progress : every iteration of the frame loop consumes at least one     *)
(*              byte or stops, so parsing terminates (checked as <>Stopped) *)
(*   Bounded  : memory is allocated for lookup tables only after the        *)
(*              declared size passed the 4096 cap, and for a frame only as  *)
(*              bytes actually arrive, so                                   *)
(*              allocated <= 3 * 4096 + bytes read                          *)
(* A token is what a hostile producer may put next on the wire; sizes and   *)
(* lengths are classes (the harness maps them to concrete numbers up to     *)
(* 2^32-1 and 2^63-1).  TLC enumerates every token sequence up to MaxLen    *)
(* (PrintInput); the harness turns each into bytes with /verif's codec and  *)
(* feeds every parse entry point of the real code under a watchdog.         *)
(***************************************************************************)
EXTENDS Integers, Sequences, TLC, Json

CONSTANTS MaxLen

SizeClass == {"0", "7", "8", "4096", "4097", "2^31-1", "2^32-1"}
LenClass  == {"exact", "one-short", "one-long", "2^31-1", "2^63-1", "truncated-varint"}
Tokens ==
  {<<"options", s>> : s \in SizeClass}
  \cup {<<"entry", i>> : i \in {"0", "1", "4096", "2^32-1"}}
  \cup {<<"pfx-entry", i>> : i \in {"1", "2^32-1"}} \cup {<<"dt-entry", i>> : i \in {"1", "2^32-1"}}
  \cup {<<"metadata">>, <<"many-rows">>, <<"many-empty-frames">>, <<"namespace-row">>, <<"graph-start-nested">>}
  \cup {<<"statement", d>> : d \in {"flat", "nest-3", "nest-99", "nest-101", "nest-5000", "repeat-all"}}
  \cup {<<"strings", k>> : k \in {"alnum-run-then-odd", "hyphen-runs-then-odd", "blanks", "nested-brackets"}}     \* strings built to make string processing (validation, splitting) blow up
  \cup {<<"frame-end", l>> : l \in LenClass}
  \cup {<<"empty-frame">>, <<"garbage">>, <<"unknown-field">>}

VARIABLES input,       \* tokens produced so far
          pc,          \* "produce" | "parse" | "stopped"
          at,          \* token the parser is at
          tablesOK,    \* declared sizes passed the cap
          allocated, bytesRead
vars == <<input, pc, at, tablesOK, allocated, bytesRead>>

Init == input = <<>> /\ pc = "produce" /\ at = 1 /\ tablesOK = FALSE /\ allocated = 0 /\ bytesRead = 0

Produce(t) ==
  /\ pc = "produce" /\ Len(input) < MaxLen /\ t \in Tokens
  /\ input' = Append(input, t)
  /\ UNCHANGED <<pc, at, tablesOK, allocated, bytesRead>>

StartParse ==
  /\ pc = "produce" /\ input # <<>>
  /\ pc' = "parse"
  /\ UNCHANGED <<input, at, tablesOK, allocated, bytesRead>>

TooBig(s) == s \in {"4097", "2^31-1", "2^32-1"}

ParseToken ==                    \* one iteration: at least the token's bytes are consumed, or the parser stops
  /\ pc = "parse" /\ at <= Len(input)
  /\ LET t == input[at] IN
     /\ bytesRead' = bytesRead + 1
     /\ CASE t[1] = "options" ->
               IF TooBig(t[2]) \/ t[2] \in {"0", "7"}
               THEN pc' = "stopped" /\ UNCHANGED <<tablesOK, allocated>>              \* refused before any table exists
               ELSE pc' = pc /\ tablesOK' = TRUE /\ allocated' = allocated + (IF tablesOK THEN 0 ELSE 3 * 4096)
          [] t[1] = "frame-end" /\ t[2] # "exact" ->
               pc' = "stopped" /\ UNCHANGED <<tablesOK, allocated>>                   \* truncated / oversized frame: raise
          [] t[1] \in {"garbage"} ->
               pc' = "stopped" /\ UNCHANGED <<tablesOK, allocated>>
          [] t[1] = "statement" /\ t[2] \in {"nest-101", "nest-5000"} ->
               pc' = "stopped" /\ UNCHANGED <<tablesOK, allocated>>                   \* recursion limit of the decoder
          [] OTHER -> pc' = (IF tablesOK \/ t[1] \in {"empty-frame", "frame-end", "unknown-field"} THEN pc ELSE "stopped")
                      /\ UNCHANGED <<tablesOK, allocated>>
  /\ at' = at + 1
  /\ UNCHANGED input

EndOfInput ==
  /\ pc = "parse" /\ at > Len(input)
  /\ pc' = "stopped"
  /\ UNCHANGED <<input, at, tablesOK, allocated, bytesRead>>

Next == (\E t \in Tokens : Produce(t)) \/ StartParse \/ ParseToken \/ EndOfInput
Spec == Init /\ [][Next]_vars /\ WF_vars(StartParse \/ ParseToken \/ EndOfInput)

Bounded == allocated <= 3 * 4096 + bytesRead
Progress == pc = "parse" => at <= Len(input) + 1
Terminates == (pc = "parse") ~> (pc = "stopped")
PrintInput == pc = "parse" /\ at = 1 => PrintT("INPUT " \o ToJson(input))
=============================================================================
