----------------------------- MODULE PyFraming -----------------------------
(***************************************************************************)
(* Tier 2 (+ Tier-1 invariants) -- the byte-level framing logic of          *)
(* parse/ioutils.py: delimited_jelly_hint, get_options_and_frames,          *)
(* frame_iterator, over a byte source that may deliver short reads          *)
(* (property C09) or end early (property C10), and the detection of the     *)
(* framing mode from the first three bytes (property C08).                  *)
(*                                                                          *)
(* The stream is concrete bytes: frame k is Varint(len) ++ payload in       *)
(* delimited mode, the bare payload of the single frame otherwise; the      *)
(* first non-empty payload starts with the row tag 0x0A, the row length     *)
(* and the options tag 0x0A (everything pyjelly or any valid producer        *)
(* writes starts like that); other payload bytes are filler (7).            *)
(*                                                                          *)
(*   code                                         action                    *)
(*   raw.read(n) returning k <= n bytes           RawRead(k)                *)
(*   BufferedReader.peek(3) / read(3)+seek        Classify                  *)
(*   parse_length_prefixed: size varint           ReadLength                *)
(*   parse_length_prefixed: payload, through      ReadPayload (one piece of  *)
(*     _BoundedReads.read in pieces                 at most ReadChunk bytes) *)
(*   parse(frame, inp.read())  (non-delimited)    ReadAll                   *)
(*                                                                          *)
(* PeekOnce = TRUE is BufferedReader.peek(3) as the code uses it on         *)
(* non-seekable sources: at most ONE raw read.  PeekOnce = FALSE is a       *)
(* reader that waits for three bytes (or end of input).                     *)
(***************************************************************************)
EXTENDS Integers, Sequences, FiniteSets, TLC, Json

CONSTANTS
  Delimited,      \* how the stream was written
  FrameLens,      \* payload length of each frame, e.g. <<12, 0, 5>>  (0 = empty frame)
  FirstRowLen,    \* length of the first row of the first non-empty frame
  CutAt,          \* the source ends after that many bytes; -1 = complete stream
  Chunks,         \* set of possible short-read sizes (a read may also return everything that is left)
  PeekOnce,
  ReadChunk,      \* a frame's payload is requested in pieces of at most that many bytes (_BoundedReads: 1 MiB in the code)
  HistReads       \* how many raw reads are remembered in the printed behaviour

Magic == 10

RECURSIVE Varint(_)
Varint(n) == IF n < 128 THEN <<n>> ELSE <<(n % 128) + 128>> \o Varint(n \div 128)

Filler(n) == [i \in 1..n |-> 7]
PayloadP(len, first, rowLen) ==   \* first non-empty frame: row tag, row length, options tag, then filler
  IF len = 0 THEN <<>>
  ELSE IF first THEN LET head == <<Magic>> \o Varint(rowLen) \o <<Magic>>
                     IN IF Len(head) >= len THEN SubSeq(head, 1, len) ELSE head \o Filler(len - Len(head))
  ELSE <<Magic>> \o Filler(len - 1)

FirstNonEmptyP(lens) == CHOOSE i \in 1..Len(lens) + 1 : (i = Len(lens) + 1 \/ lens[i] > 0)
                          /\ \A j \in 1..(i - 1) : lens[j] = 0

RECURSIVE EncodeP(_, _, _, _)
EncodeP(delim, lens, rowLen, i) ==
  IF i > Len(lens) THEN <<>>
  ELSE (IF delim THEN Varint(lens[i]) ELSE <<>>) \o PayloadP(lens[i], i = FirstNonEmptyP(lens), rowLen)
       \o EncodeP(delim, lens, rowLen, i + 1)

Full  == EncodeP(Delimited, FrameLens, FirstRowLen, 1)
Bytes == IF CutAt < 0 THEN Full ELSE SubSeq(Full, 1, CutAt)

(* frame k occupies Full[Start(k)+1 .. End(k)] including its length prefix *)
RECURSIVE End(_)
End(k) == IF k = 0 THEN 0 ELSE End(k - 1) + (IF Delimited THEN Len(Varint(FrameLens[k])) ELSE 0) + FrameLens[k]
WhollyBefore(cut) == Cardinality({k \in 1..Len(FrameLens) : End(k) <= cut})

(* parse/ioutils.py: delimited_jelly_hint *)
Hint(h) == Len(h) >= 3 /\ (h[1] # Magic \/ (h[2] = Magic /\ h[3] # Magic))

VARIABLES pos,        \* bytes taken from the raw source
          buf,        \* BufferedReader: bytes read from the source and not yet consumed
          pc,         \* "classify" | "length" | "payload" | "all" | "done"
          classified, \* "" | "delimited" | "single"
          need,       \* payload bytes the current frame still needs
          frames,     \* frames handed to the decoder
          outcome,    \* "" | "eof" | "raise" | "misparse"
          reads       \* history of raw read sizes (first HistReads only)
vars == <<pos, buf, pc, classified, need, frames, outcome, reads>>

Init == pos = 0 /\ buf = <<>> /\ pc = "classify" /\ classified = "" /\ need = 0 /\ frames = 0 /\ outcome = "" /\ reads = <<>>

Left == Len(Bytes) - pos
AtEOF == Left = 0

RawRead(k) ==                  \* the source hands over k more bytes (k = 0 only at end of input)
  /\ k \in 1..Left
  /\ (k \in Chunks \/ k = Left)
  /\ buf' = buf \o SubSeq(Bytes, pos + 1, pos + k)
  /\ pos' = pos + k
  /\ reads' = IF Len(reads) < HistReads THEN Append(reads, k) ELSE reads
  /\ UNCHANGED <<pc, classified, need, frames, outcome>>

Wants(n) == Len(buf) < n /\ ~AtEOF          \* BufferedReader.read(n) keeps reading until n bytes or end of input

Classify ==
  /\ pc = "classify"
  /\ IF PeekOnce THEN (Len(buf) > 0 \/ AtEOF) ELSE ~Wants(3)       \* peek(3): whatever ONE raw read returned
  /\ LET h == SubSeq(buf, 1, IF Len(buf) < 3 THEN Len(buf) ELSE 3) IN
     classified' = IF Hint(h) THEN "delimited" ELSE "single"
  /\ pc' = IF Hint(SubSeq(buf, 1, IF Len(buf) < 3 THEN Len(buf) ELSE 3)) THEN "length" ELSE "all"
  /\ UNCHANGED <<pos, buf, need, frames, outcome, reads>>

VarintComplete(b) == \E i \in 1..Len(b) : b[i] < 128 /\ \A j \in 1..(i - 1) : b[j] >= 128
VarintLen(b) == CHOOSE i \in 1..Len(b) : b[i] < 128 /\ \A j \in 1..(i - 1) : b[j] >= 128
RECURSIVE VarintVal(_, _)
VarintVal(b, n) == IF n = 0 THEN 0 ELSE (b[n] % 128) * (2 ^ (7 * (n - 1))) + VarintVal(b, n - 1)

ReadLength ==                  \* parse_length_prefixed: size varint, byte by byte
  /\ pc = "length"
  /\ IF Len(buf) = 0 /\ AtEOF
     THEN /\ pc' = "done" /\ outcome' = (IF classified = (IF Delimited THEN "delimited" ELSE "single") THEN "eof" ELSE "misparse")
          /\ UNCHANGED <<buf, need>>
     ELSE IF VarintComplete(buf)
     THEN /\ need' = VarintVal(buf, VarintLen(buf))
          /\ buf' = SubSeq(buf, VarintLen(buf) + 1, Len(buf))
          /\ pc' = "payload" /\ outcome' = outcome
     ELSE /\ AtEOF                              \* input ends inside the size varint
          /\ pc' = "done" /\ outcome' = "raise" /\ UNCHANGED <<buf, need>>
  /\ UNCHANGED <<pos, classified, frames, reads>>

ReadPayload ==                 \* one piece: min(need, ReadChunk) bytes are requested; fewer arrive only at end of input
  /\ pc = "payload"
  /\ LET want == IF need > ReadChunk THEN ReadChunk ELSE need IN
     /\ ~Wants(want)
     /\ IF Len(buf) >= want
        THEN /\ buf' = SubSeq(buf, want + 1, Len(buf))
             /\ need' = need - want
             /\ IF need = want
                THEN frames' = frames + 1 /\ pc' = "length"            \* the whole payload has arrived: the frame is parsed
                ELSE frames' = frames /\ pc' = "payload"
             /\ outcome' = outcome
        ELSE /\ pc' = "done" /\ outcome' = "raise" /\ UNCHANGED <<buf, frames, need>>   \* truncated message (never padded)
  /\ UNCHANGED <<pos, classified, reads>>

ReadAll ==                     \* non-delimited: parse(frame, inp.read())
  /\ pc = "all"
  /\ AtEOF
  /\ pc' = "done"
  /\ IF Delimited /\ Len(buf) > 0
     THEN outcome' = "misparse" /\ UNCHANGED frames            \* a delimited stream parsed as one bare frame
     ELSE IF CutAt >= 0 /\ CutAt < Len(Full)
     THEN outcome' = "raise" /\ UNCHANGED frames               \* truncated / empty single frame
     ELSE outcome' = "eof" /\ frames' = 1
  /\ buf' = <<>>
  /\ UNCHANGED <<pos, classified, need, reads>>

Next == (\E k \in 1..Len(Full) : RawRead(k)) \/ Classify \/ ReadLength \/ ReadPayload \/ ReadAll
Spec == Init /\ [][Next]_vars

---------------------------------------------------------------------------
(* C08: the mode is recognised from the first three bytes of any complete stream *)
HintCorrect == (CutAt < 0 /\ Len(Full) >= 3) => (Hint(SubSeq(Full, 1, 3)) = Delimited)

(* C09: chunking of the transport is never mistaken for structure *)
ChunkingIrrelevant ==
  (pc = "done" /\ CutAt < 0) => (outcome = "eof" /\ frames = Len(FrameLens))
ClassifiedRight == classified # "" /\ CutAt < 0 => classified = (IF Delimited THEN "delimited" ELSE "single")

(* C10: a truncated delimited stream yields exactly the frames wholly delivered, then ends or raises *)
PrefixOnly ==
  (pc = "done" /\ Delimited /\ CutAt >= 0 /\ outcome # "misparse") => frames = WhollyBefore(CutAt)
NeverMore == Delimited /\ CutAt >= 0 => frames <= WhollyBefore(CutAt)

PrintRun ==
  pc = "done" => PrintT("RUN " \o ToJson([reads |-> reads, classified |-> classified, frames |-> frames, outcome |-> outcome]))
=============================================================================
