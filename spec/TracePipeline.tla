---------------------------- MODULE TracePipeline ----------------------------
(***************************************************************************)
(* TLC as judge of recorded pipeline executions (property C11, write side). *)
(*                                                                          *)
(* A trace is the event log of ONE real run of a statement iterator through *)
(* a real serializer generator and a frame consumer (all traces of a batch  *)
(* share FrameSize and NStmts, which are constants of PyPipeline):          *)
(*   [e |-> "resume"]                    the consumer calls next(frames)    *)
(*   [e |-> "enroll"]                    the options row enters the flow    *)
(*   [e |-> "pull", i, pending]          the serializer asks for statement  *)
(*                                       i with `pending` rows in its flow  *)
(*   [e |-> "enc", i, r]                 statement i produced r rows        *)
(*   [e |-> "frame", k, rows, pulled,    frame k reaches the consumer;      *)
(*          stmts]                       stmts = statement rows received so *)
(*                                       far (cumulative)                   *)
(*   [e |-> "end"]                       the frame generator is exhausted   *)
(* Every event must be a step of PyPipeline's write side with the logged    *)
(* values (Tier 2: "not-a-step"), and the Tier-1 action properties of C11   *)
(* are evaluated on every step:                                             *)
(*   W1 from the 2nd pull on, fewer than FrameSize rows are pending         *)
(*   W2 a cut frame is handed over before more input is consumed            *)
(*   W3 input is consumed no further than the statement completing a frame  *)
(***************************************************************************)
EXTENDS PyPipeline, Json, IOUtils

Batch == JsonDeserialize(IOEnv.TRACE_FILE)
VARIABLES tid, l, verdict, conform, driftAt
Tr == Batch[tid]
Ev == Tr.events[l]
tvars == <<tid, l, verdict, conform, driftAt, wvars, rvars>>

TInit == tid \in 1..Len(Batch) /\ l = 1 /\ verdict = "" /\ conform = TRUE /\ driftAt = 0 /\ WInit /\ RInit

(* Tier-1 clauses on the logged values alone (they do not depend on the model's bookkeeping) *)
W1(e) == e.e = "pull" /\ e.i >= 2 => e.pending < FrameSize
(* W2/W3 on logged values: when a frame reaches the consumer, every statement taken from the input so far is inside the    *)
(* frames received so far (e.stmts = statement rows received, cumulative): nothing was consumed beyond the completing one *)
W23(e) == e.e = "frame" => e.pulled = e.stmts

StepOf(e) ==
  CASE e.e = "resume" -> Resume
    [] e.e = "enroll" -> Enroll
    [] e.e = "pull"   -> Pull /\ pulled' = e.i /\ pending = e.pending
    [] e.e = "enc"    -> Encode(e.r) /\ encoded' = e.i
    [] e.e = "frame"  -> (YieldFrame \/ FinalFlush) /\ frames' = e.k /\ pulled = e.pulled
    [] e.e = "end"    -> Finish
    [] OTHER -> FALSE

Consume ==
  /\ verdict = "" /\ l <= Len(Tr.events)
  /\ IF ~W1(Ev) THEN verdict' = "W1-pull-with-full-buffer" /\ UNCHANGED <<wvars, l, conform, driftAt>>
     ELSE IF ~W23(Ev) THEN verdict' = "W3-input-consumed-beyond-the-statement-completing-the-frame" /\ UNCHANGED <<wvars, l, conform, driftAt>>
     ELSE IF conform /\ ENABLED StepOf(Ev) THEN StepOf(Ev) /\ l' = l + 1 /\ UNCHANGED <<verdict, conform, driftAt>>
     ELSE \* not a step of the Tier-2 model: remember where, keep judging the Tier-1 clauses on the rest of the log
          /\ conform' = FALSE /\ driftAt' = (IF conform THEN l ELSE driftAt) /\ l' = l + 1 /\ UNCHANGED <<wvars, verdict>>
  /\ UNCHANGED <<tid, rvars>>

Finished ==
  /\ verdict = "" /\ l > Len(Tr.events)
  /\ verdict' = (IF ~conform THEN "T2-not-a-step-of-PyPipeline" ELSE IF wpc = "done" THEN "ok" ELSE "T2-trace-ends-early")
  /\ UNCHANGED <<tid, l, conform, driftAt, wvars, rvars>>

TNext == Consume \/ Finished
Report == verdict # "" => PrintT("VERDICT " \o ToJson([id |-> Tr.id, verdict |-> verdict, at |-> IF verdict = "T2-not-a-step-of-PyPipeline" THEN driftAt ELSE l]))
=============================================================================
