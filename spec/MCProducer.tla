---------------------------- MODULE MCProducer ----------------------------
(* Constant pools for JellyProducer *)
EXTENDS JellyProducer
Ids8 == 1..8
Ids3 == 1..3
Ids2 == 1..2
IdsTop == {1, 2, 3, 4095, 4096}
IdsNine == {1, 2, 8, 9}
NoIds == {}
SN == {"x", "y", "z", "a/x", "w#", ""}
SN1 == {"x", "y", "z", "a/x", "w#"}      \* without the empty name: rdflib cannot name a graph by the empty IRI
SP == {"a/", "b#", "a/x", ""}
SD == {"d:a", "d:b", "http://www.w3.org/2001/XMLSchema#string", "http://www.w3.org/2001/XMLSchema#integer"}
BN == {"b1", "b2"}
LX == {"l", "01", ""}
LG == {"en", "en-GB"}
NSN == {"ex", ""}
NoFaults == {}
NoOverride == <<>>
TinyKinds == <<{"iri"}, {"iri"}, {"bn"}, {"dg", "iri"}>>
TinyKindsO == <<{"iri", "bn"}, {"iri"}, {"iri", "bn", "lit"}, {"dg", "iri", "bn"}>>
StarKindsS == <<{"iri", "qt"}, {"iri"}, {"bn"}, {}>>             \* reader state graph with quoted triples (generic adapters only):
StarKindsO == <<{"iri"}, {"iri"}, {"bn", "qt"}, {}>>             \* in subject position, in object position
SNx == {"x"}
SN2 == {"x", "y"}
SP1 == {"a/"}
SD1 == {"d:a"}
BN1 == {"b"}
LX1 == {"l"}
NoLangs == {}
Ids1 == {1}
NS1 == {"ex"}
NoStr == {}
F1 == {"entry-id-beyond-size"}
F2 == {"reference-beyond-size"}
F3 == {"reference-to-unfilled-slot"}
F4 == {"datatype-reference-zero"}
F5 == {"datatype-reference-table-disabled"}
F6 == {"repeated-term-without-previous"}
F7 == {"repeated-term-in-quoted-triple"}
F8 == {"row-kind-forbidden-by-physical-type"}
F9 == {"triple-outside-graph"}
F10 == {"missing-options-row"}
F11 == {"unsupported-version"}
F12 == {"unsupported-stream-type"}
BodyFaults == F1 \cup F2 \cup F3 \cup F4 \cup F5 \cup F7 \cup F8 \cup F9
AllFaults == {"entry-id-beyond-size", "reference-beyond-size", "reference-to-unfilled-slot", "datatype-reference-zero",
              "datatype-reference-table-disabled", "repeated-term-without-previous", "repeated-term-in-quoted-triple",
              "row-kind-forbidden-by-physical-type", "triple-outside-graph", "missing-options-row",
              "unsupported-version", "unsupported-stream-type"}
=============================================================================
