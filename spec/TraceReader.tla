--------------------------- MODULE TraceReader ---------------------------
(***************************************************************************)
(* TLC as judge of recorded executions (code -> spec).                      *)
(*                                                                          *)
(* The batch file (env TRACE_FILE) is a JSON array of traces.  A trace is   *)
(*   [id, rows, mode, exp, prefix]                                          *)
(* rows  : what the REAL code wrote, decoded by /verif's own wire codec     *)
(* mode  : "seq"  - the denotation must equal exp item by item, in order    *)
(*         "set"  - the set of denoted items must equal the set exp         *)
(*         "none" - validity only                                           *)
(* One behaviour per trace id; one row per step through the Tier-1 reader;  *)
(* one total verdict per trace:  "ok" or the failing clause and position.   *)
(***************************************************************************)
EXTENDS JellyReader, Json, IOUtils, TLCExt

Batch == JsonDeserialize(IOEnv.TRACE_FILE)

VARIABLES tid, l, rd, acc, done
vars == <<tid, l, rd, acc, done>>

Tr == Batch[tid]

Init ==
  /\ tid \in 1..Len(Batch)
  /\ l = 1
  /\ rd = RdInit
  /\ acc = {}
  /\ done = FALSE

(* the expectation clauses, evaluated after every denoting row *)
Expect(rd0, rd1) ==
  IF rd1.err # "" \/ rd1.n = rd0.n \/ Tr.mode # "seq" THEN rd1
  ELSE IF rd1.n > Len(Tr.exp) THEN Fail(rd1, "D-more-items-than-input")
  ELSE IF rd1.item # Tr.exp[rd1.n] THEN Fail(rd1, "D-item-differs-from-input")
  ELSE rd1

Step ==
  /\ ~done
  /\ l <= Len(Tr.rows)
  /\ rd.err = ""
  /\ LET rd1 == RdStep(rd, Tr.rows[l])
         rd2 == Expect(rd, rd1)
     IN /\ rd' = rd2
        /\ acc' = IF Tr.mode = "set" /\ rd2.err = "" /\ rd2.n > rd.n THEN acc \cup {rd2.item} ELSE acc
  /\ l' = l + 1
  /\ UNCHANGED <<tid, done>>

FinalErr ==            \* prefix = TRUE: the writer stopped mid-stream; only prefix validity is demanded
  LET e == IF Tr.prefix THEN rd ELSE RdEnd(rd) IN
  IF e.err # "" THEN e.err
  ELSE IF Tr.mode = "seq" /\ rd.n # Len(Tr.exp) THEN "D-fewer-items-than-input"
  ELSE IF Tr.mode = "set" /\ acc # {Tr.exp[i] : i \in DOMAIN Tr.exp} THEN "D-set-differs-from-input"
  ELSE "ok"

Finish ==
  /\ ~done
  /\ (l > Len(Tr.rows) \/ rd.err # "")
  /\ done' = TRUE
  /\ PrintT("VERDICT " \o ToJson([id |-> Tr.id, verdict |-> IF rd.err # "" THEN rd.err ELSE FinalErr,
                                   at |-> l - 1, n |-> rd.n, aud |-> rd.aud]))
  /\ UNCHANGED <<tid, l, rd, acc>>

Next == Step \/ Finish
Spec == Init /\ [][Next]_vars
=============================================================================
