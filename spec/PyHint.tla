------------------------------- MODULE PyHint -------------------------------
(***************************************************************************)
(* Property C08 on the model: for EVERY (mode, first-frame length,          *)
(* first-row length) -- i.e. every 3-byte header a stream whose first       *)
(* frame is empty or starts with a row can begin with -- the truth table    *)
(* of delimited_jelly_hint answers the mode the stream was written in.      *)
(* Uses the byte layout and Hint of PyFraming.                              *)
(***************************************************************************)
EXTENDS PyFraming

CONSTANT HMax          \* lengths 0..HMax are enumerated exhaustively (>= 130 covers every first and second varint byte class)
VARIABLES m, f, f2, r
hv == <<m, f, f2, r>>

Big == {16383, 16384, 2097151, 2097152}
FLens == (0..HMax) \cup Big
RLens(fl) == {x \in (1..HMax) \cup Big : x + 1 + Len(Varint(x)) <= fl}     \* the row fits into its frame

HInit ==
  /\ Init                                 \* (the reader variables of PyFraming are not used here)
  /\ m \in BOOLEAN
  /\ f \in FLens
  /\ f2 \in {0, 5, 10, 130}
  /\ (f > 0 => f2 = 0)                    \* f2 is the frame after an EMPTY first frame
  /\ (~m => f > 0 /\ f2 = 0)              \* a non-delimited stream is one non-empty frame
  /\ r \in (IF f > 0 THEN RLens(f) ELSE IF f2 > 0 THEN RLens(f2) ELSE {1})
  /\ (f = 0 /\ f2 = 0 => r = 1)
HNext == UNCHANGED <<hv, vars>>
HSpec == HInit /\ [][HNext]_<<hv, vars>>

(* the beginning of the stream (same layout as PyFraming.EncodeP, without materialising megabytes of filler) *)
RowStart == <<Magic>> \o Varint(r) \o <<Magic, 7, 7>>
Stream == IF f > 0 THEN (IF m THEN Varint(f) ELSE <<>>) \o RowStart
          ELSE IF f2 > 0 THEN <<0>> \o Varint(f2) \o RowStart
          ELSE <<0, 0, 0>>
Header == SubSeq(Stream, 1, 3)
SameLayout == (f > 0 /\ f <= 40) => SubSeq(EncodeP(m, <<f>>, r, 1), 1, 3) = Header      \* cross-check against PyFraming's encoder
Detected == Len(Stream) >= 3 => (Hint(Header) = m)
PrintHeader == Len(Stream) >= 3 => PrintT("HEADER " \o ToJson([m |-> m, h |-> Header]))
=============================================================================
