----------------------------- MODULE PyWriter -----------------------------
(***************************************************************************)
(* Tier 2 -- what pyjelly's SERIALIZER does, one action per critical        *)
(* section of the code, composed with the Tier-1 reader (JellyReader).      *)
(*                                                                          *)
(*   code                                   action                          *)
(*   Stream.enroll                          Enroll                          *)
(*   Stream.namespace_declaration           Namespace(name, p, n)           *)
(*   encode_spo / encode_quad: one slot     SlotStep(term)                  *)
(*   ... a term the encoder refuses         SlotReject(cause)               *)
(*   row appended + flow.extend             Commit                          *)
(*   flow.frame_from_bounds                 (inside Commit / GraphEnd)      *)
(*   GraphStream.graph: start rows          GraphBegin(g)                   *)
(*   GraphStream.graph: end row             GraphEnd                        *)
(*                                                                          *)
(* The lookup tables are modelled line by line after serialize/lookup.py    *)
(* (OrderedDict LRU order, index reuse on eviction, last_assigned_index,    *)
(* last_reused_index, the three term-index rules).                          *)
(*                                                                          *)
(* Composition: every row the writer emits is fed to the Tier-1 reader      *)
(* state rd carried alongside.  The per-statement invariants are:           *)
(*   Valid    : the reader never errs                            (C03)      *)
(*   Faithful : the statement row denotes the statement written  (C01)      *)
(*   Tight    : no redundant entry, missed elision, missed zero  (C19)      *)
(*   NoPoison : after a rejected statement, what follows still   (C20)      *)
(*              denotes exactly the accepted statements                     *)
(* The reader's counters are reset at every commit, so the product state    *)
(* is finite and exhaustive exploration is closure over histories of any    *)
(* length.                                                                  *)
(*                                                                          *)
(* Model terms (tuples):  <<"iri", prefix, name>>  <<"bn", id>>             *)
(*   <<"lit", lex, lang, dt>>  <<"dg">>  <<"qt", s, p, o>>  <<"bad">>       *)
(* prefix/name atoms are real strings with split_iri(prefix \o name) =      *)
(* <<prefix, name>>, so behaviours replay into the real code verbatim.      *)
(***************************************************************************)
EXTENDS Integers, Sequences, FiniteSets, TLC, JellyReader, Json

CONSTANTS
  MaxN, MaxP, MaxD,      \* table sizes (MaxP, MaxD may be 0 = disabled)
  PType,                 \* 1 TRIPLES, 2 QUADS, 3 GRAPHS
  PoolS, PoolP, PoolO, PoolG,   \* candidate terms per slot
  NsPool,                \* candidate namespace declarations <<label, prefix, name>>
  NsDecl,                \* namespace declarations enabled (version 2)
  FrameSize,             \* BoundedFrameFlow.frame_size; 0 = never cut (Manual flow)
  CheckFits,             \* TRUE: only statements that fit the tables (precondition of C01)
  AllowReject,           \* TRUE: SlotReject is enabled (C20)
  HistLen,               \* > 0: keep a history of that many statements and print it (simulation)
  PoisonOnReject         \* TRUE: the code as it is (a failed row makes the stream refuse further use);
                         \* FALSE: the design without that guard -- TLC must then find Good violated (non-vacuity of C20)

NoTerm == <<"none">>
None   == -1

VARIABLES
  tabs,     \* [N |-> table, P |-> table, D |-> table]
  rep,      \* repeated_terms: <<s, p, o, g>>, NoTerm = None
  pc,       \* "new" | "idle" | "slot" | "commit"
  cur,      \* terms of the statement being encoded so far
  rows,     \* rows produced for it so far (local list `rows` of encode_spo)
  gcur,     \* GRAPHS: graph term of the GraphStream.graph() call in progress, NoTerm if none
  buf,      \* len(stream.flow)
  rd,       \* Tier-1 reader fed with everything the flow received
  bad,      \* "" or the name of the violated composite clause
  hist      \* simulation only

vars == <<tabs, rep, pc, cur, rows, gcur, buf, rd, bad, hist>>
gopen == gcur # NoTerm

---------------------------------------------------------------------------
(* serialize/lookup.py *)

EmptyTab == [ord |-> <<>>, idx |-> EmptyFn, la |-> 0, lu |-> 0]

Touch(tab, k) ==                       \* Lookup.make_last_to_evict
  [tab EXCEPT !.ord = Append(SelectSeq(@, LAMBDA x : x # k), k)]

EntryStep(tab, size, k) ==             \* LookupEncoder.encode_entry_index ; id = None (-1) if resident
  IF k \in DOMAIN tab.idx
  THEN [tab |-> Touch(tab, k), id |-> None]
  ELSE LET full == Len(tab.ord) = size                       \* Lookup._evicting
           ix   == IF full THEN tab.idx[Head(tab.ord)] ELSE Len(tab.ord) + 1
           ord2 == IF full THEN Append(Tail(tab.ord), k) ELSE Append(tab.ord, k)
           keep == IF full THEN DOMAIN tab.idx \ {Head(tab.ord)} ELSE DOMAIN tab.idx
           idx2 == (k :> ix) @@ [x \in keep |-> tab.idx[x]]
       IN [tab |-> [ord |-> ord2, idx |-> idx2, la |-> ix, lu |-> tab.lu],
           id  |-> IF ix = tab.la + 1 THEN 0 ELSE ix]

TermIdx(tab, k) ==                     \* LookupEncoder.encode_term_index
  [tab |-> [Touch(tab, k) EXCEPT !.lu = tab.idx[k]], ix |-> tab.idx[k]]

PrefixTerm(tab, size, k) ==            \* encode_prefix_term_index
  IF size = 0 THEN [tab |-> tab, id |-> 0]
  ELSE IF k = "" /\ tab.lu = 0 THEN [tab |-> tab, id |-> 0]
  ELSE LET t == TermIdx(tab, k) IN
       [tab |-> t.tab, id |-> IF tab.lu = 0 THEN t.ix ELSE IF t.ix = tab.lu THEN 0 ELSE t.ix]

NameTerm(tab, k) ==                    \* encode_name_term_index
  LET t == TermIdx(tab, k) IN [tab |-> t.tab, id |-> IF t.ix = tab.lu + 1 THEN 0 ELSE t.ix]

---------------------------------------------------------------------------
(* serialize/encode.py: terms *)

NoClaims == [P |-> {}, N |-> {}, D |-> {}]

EncIri(tb, p, n) ==                    \* TermEncoder.encode_iri_indices (with TermEncoder._claim first)
  LET name == IF MaxP > 0 THEN n ELSE p \o n
      cP   == IF MaxP > 0 THEN tb.C.P \cup {p} ELSE tb.C.P
      cN   == tb.C.N \cup {name}
      pe   == IF MaxP > 0 THEN EntryStep(tb.P, MaxP, p) ELSE [tab |-> tb.P, id |-> None]
      ne   == EntryStep(tb.N, MaxN, name)
      r1   == IF pe.id # None THEN <<[r |-> "pfx", id |-> pe.id, v |-> p]>> ELSE <<>>
      r2   == IF ne.id # None THEN <<[r |-> "name", id |-> ne.id, v |-> name]>> ELSE <<>>
      pt   == PrefixTerm(pe.tab, MaxP, p)
      nt   == NameTerm(ne.tab, name)
  IN IF (MaxP > 0 /\ Cardinality(cP) > MaxP) \/ Cardinality(cN) > MaxN
     THEN [tb |-> tb, rows |-> <<>>, rej |-> "table-too-small", w |-> EmptyFn]
     ELSE [tb |-> [N |-> nt.tab, P |-> pt.tab, D |-> tb.D, C |-> [tb.C EXCEPT !.P = cP, !.N = cN]],
           rows |-> r1 \o r2, rej |-> "", w |-> [t |-> "iri", p |-> pt.id, n |-> nt.id]]

EncLit(tb, lex, lang, dt) ==           \* TermEncoder.encode_literal
  IF dt # "" /\ dt # XsdString
  THEN IF MaxD = 0
       THEN [tb |-> tb, rows |-> <<>>, rej |-> "datatype-table-disabled", w |-> EmptyFn]
       ELSE IF Cardinality(tb.C.D \cup {dt}) > MaxD
       THEN [tb |-> tb, rows |-> <<>>, rej |-> "table-too-small", w |-> EmptyFn]
       ELSE LET de == EntryStep(tb.D, MaxD, dt)
                dt2 == TermIdx(de.tab, dt)
            IN [tb |-> [tb EXCEPT !.D = dt2.tab, !.C.D = @ \cup {dt}],
                rows |-> IF de.id # None THEN <<[r |-> "dt", id |-> de.id, v |-> dt]>> ELSE <<>>,
                rej |-> "", w |-> [t |-> "lit", lex |-> lex, dt |-> dt2.ix]]
  ELSE IF lang # ""
       THEN [tb |-> tb, rows |-> <<>>, rej |-> "", w |-> [t |-> "lit", lex |-> lex, lang |-> lang]]
       ELSE [tb |-> tb, rows |-> <<>>, rej |-> "", w |-> [t |-> "lit", lex |-> lex]]

RECURSIVE EncTerm(_, _)
EncTerm(tb, term) ==
  CASE term[1] = "iri" -> EncIri(tb, term[2], term[3])
    [] term[1] = "bn"  -> [tb |-> tb, rows |-> <<>>, rej |-> "", w |-> [t |-> "bn", v |-> term[2]]]
    [] term[1] = "dg"  -> [tb |-> tb, rows |-> <<>>, rej |-> "", w |-> [t |-> "dg"]]
    [] term[1] = "lit" -> EncLit(tb, term[2], term[3], term[4])
    [] term[1] = "qt"  ->             \* encode_quoted_triple: no repeated terms inside
         LET a == EncTerm(tb, term[2]) IN
         IF a.rej # "" THEN a ELSE
         LET b == EncTerm(a.tb, term[3]) IN
         IF b.rej # "" THEN [b EXCEPT !.rows = a.rows \o @] ELSE
         LET c == EncTerm(b.tb, term[4]) IN
         IF c.rej # "" THEN [c EXCEPT !.rows = a.rows \o b.rows \o @] ELSE
         [tb |-> c.tb, rows |-> a.rows \o b.rows \o c.rows, rej |-> "",
          w |-> [t |-> "qt", s |-> a.w, p |-> b.w, o |-> c.w]]
    [] OTHER -> [tb |-> tb, rows |-> <<>>, rej |-> "unsupported-term-type", w |-> EmptyFn]

(* what a model term denotes, in the Tier-1 reader's vocabulary *)
RECURSIVE Den(_)
Den(term) ==
  CASE term[1] = "iri" -> [k |-> "iri", v |-> term[2] \o term[3]]
    [] term[1] = "bn"  -> [k |-> "bn", v |-> term[2]]
    [] term[1] = "dg"  -> [k |-> "dg"]
    [] term[1] = "lit" -> Lit(term[2], term[3], term[4])
    [] term[1] = "qt"  -> [k |-> "qt", s |-> Den(term[2]), p |-> Den(term[3]), o |-> Den(term[4])]
    [] OTHER -> [k |-> "bad"]

---------------------------------------------------------------------------
(* what a statement needs from the tables (precondition of C01, subject of C18) *)

RECURSIVE Need(_)
Need(term) ==   \* <<set of prefix keys, set of name keys, set of datatype keys>>
  CASE term[1] = "iri" -> <<IF MaxP > 0 THEN {term[2]} ELSE {},
                            {IF MaxP > 0 THEN term[3] ELSE term[2] \o term[3]}, {}>>
    [] term[1] = "lit" -> <<{}, {}, IF term[4] # "" /\ term[4] # XsdString THEN {term[4]} ELSE {}>>
    [] term[1] = "qt"  -> LET a == Need(term[2]) b == Need(term[3]) c == Need(term[4]) IN
                          <<a[1] \cup b[1] \cup c[1], a[2] \cup b[2] \cup c[2], a[3] \cup b[3] \cup c[3]>>
    [] OTHER -> <<{}, {}, {}>>

RECURSIVE NeedAll(_)
NeedAll(ts) == IF ts = <<>> THEN <<{}, {}, {}>>
               ELSE LET a == Need(Head(ts)) b == NeedAll(Tail(ts)) IN
                    <<a[1] \cup b[1], a[2] \cup b[2], a[3] \cup b[3]>>

Fits(ts) ==
  LET nd == NeedAll(ts) IN
  /\ (MaxP = 0 \/ Cardinality(nd[1]) <= MaxP)
  /\ Cardinality(nd[2]) <= MaxN
  /\ (MaxD = 0 \/ Cardinality(nd[3]) <= MaxD)

---------------------------------------------------------------------------
Arity == IF PType = PT_QUADS THEN 4 ELSE 3
SlotName(i) == <<"s", "p", "o", "g">>[i]
Pool(i) == CASE i = 1 -> PoolS [] i = 2 -> PoolP [] i = 3 -> PoolO [] OTHER -> PoolG

OptRow == [r |-> "opt", name |-> "", pt |-> PType, gen |-> TRUE, star |-> TRUE,
           mn |-> MaxN, mp |-> MaxP, md |-> MaxD, lt |-> 0, ver |-> IF NsDecl THEN 2 ELSE 1]

Init ==
  /\ tabs = [N |-> EmptyTab, P |-> EmptyTab, D |-> EmptyTab, C |-> NoClaims]
  /\ rep = <<NoTerm, NoTerm, NoTerm, NoTerm>>
  /\ pc = "new"
  /\ cur = <<>> /\ rows = <<>>
  /\ gcur = NoTerm
  /\ buf = 0
  /\ rd = RdInit
  /\ bad = ""
  /\ hist = <<>>

(* rows reach the flow: feed the reader; frame_from_bounds *)
Flush(n) == IF FrameSize = 0 THEN 0 ELSE IF n >= FrameSize THEN 0 ELSE n   \* FrameSize = 0: buffer fill not tracked
Settle(r) == [r EXCEPT !.n = 0, !.item = EmptyFn, !.aud = ZeroAud]   \* drop the unbounded counters

Enroll ==
  /\ pc = "new"
  /\ rd' = RdStep(rd, OptRow)
  /\ buf' = IF FrameSize = 0 THEN 0 ELSE 1
  /\ pc' = "idle"
  /\ UNCHANGED <<tabs, rep, cur, rows, gcur, bad, hist>>

Namespace(ns) ==       \* Stream.namespace_declaration: rows go straight to the flow, no bounds check
  /\ pc = "idle" /\ NsDecl /\ ~gopen
  /\ (HistLen = 0 \/ Len(hist) < HistLen)
  /\ LET e  == EncIri([tabs EXCEPT !.C = NoClaims], ns[2], ns[3])          \* start_row
         rw == e.rows \o <<[r |-> "ns", name |-> ns[1], iri |-> e.w]>>
         r2 == RdRun(rd, rw, 1)
     IN /\ e.rej = ""
        /\ tabs' = [e.tb EXCEPT !.C = NoClaims]
        /\ rd' = Settle(r2)
        /\ bad' = IF bad # "" THEN bad
                  ELSE IF r2.err # "" THEN "Valid:" \o r2.err
                  ELSE IF r2.item # [ns |-> ns[1], iri |-> ns[2] \o ns[3]] THEN "Faithful:namespace"
                  ELSE IF r2.aud.re > 0 THEN "Tight:redundant-entry"
                  ELSE IF r2.aud.mz > 0 THEN "Tight:missed-zero"
                  ELSE ""
        /\ buf' = IF FrameSize = 0 THEN 0 ELSE buf + Len(rw)
        /\ hist' = IF HistLen > 0 THEN Append(hist, [op |-> "ns", ns |-> ns, rows |-> rw]) ELSE hist
  /\ UNCHANGED <<rep, pc, cur, rows, gcur>>

Begin ==
  /\ pc = "idle"
  /\ (PType = PT_GRAPHS => gopen)
  /\ (HistLen = 0 \/ Len(hist) < HistLen)
  /\ pc' = "slot" /\ cur' = <<>> /\ rows' = <<>>
  /\ tabs' = [tabs EXCEPT !.C = NoClaims]                                  \* TermEncoder.start_row
  /\ UNCHANGED <<rep, gcur, buf, rd, bad, hist>>

SlotStep(term) ==      \* body of encode_spo / encode_quad for one slot
  /\ pc = "slot"
  /\ LET i == Len(cur) + 1 IN
     /\ term \in Pool(i)
     \* CheckFits = TRUE restricts the INPUTS to statements all of whose terms fit the tables (the precondition of C01 read
     \* strictly: independent of what happens to be elided, so that the same statements can be replayed in another order).
     \* The code itself is more generous: only the NON-elided terms of a row must fit (e.rej = "" below) -- that is what
     \* CheckFits = FALSE explores (state-graph comparison, C18).
     /\ (CheckFits => Fits(Append(cur, term)))
     /\ IF rep[i] = term
        THEN UNCHANGED <<tabs, rep, rows>>                     \* elided: nothing is touched
        ELSE LET e == EncTerm(tabs, term) IN
             /\ e.rej = ""
             /\ tabs' = e.tb
             /\ rows' = rows \o e.rows \o <<[slot |-> SlotName(i), w |-> e.w]>>
             /\ rep' = [rep EXCEPT ![i] = term]
     /\ cur' = Append(cur, term)
     /\ pc' = IF i = Arity THEN "commit" ELSE "slot"
  /\ UNCHANGED <<gcur, buf, rd, bad, hist>>

SlotReject(term) ==    \* the encoder raises in this slot: rows so far are LOST, tables and rep are not rolled back,
                       \* so the Stream marks itself failed and refuses every later call (Stream.ensure_usable)
  /\ pc = "slot" /\ AllowReject
  /\ LET i == Len(cur) + 1 IN
     /\ term \in Pool(i)
     /\ rep[i] # term
     /\ LET e == EncTerm(tabs, term) IN
        /\ e.rej # ""
        /\ tabs' = [e.tb EXCEPT !.C = NoClaims]
  /\ pc' = (IF PoisonOnReject THEN "failed" ELSE "idle") /\ cur' = <<>> /\ rows' = <<>>
  /\ hist' = IF HistLen > 0 THEN Append(hist, [op |-> "reject", st |-> Append(cur, term), rows |-> <<>>]) ELSE hist
  /\ UNCHANGED <<rep, gcur, buf, rd, bad>>

(* the statement row: entry rows first, then the row with the slots that were not elided *)
StmtRows ==
  LET ent  == SelectSeq(rows, LAMBDA x : "r" \in DOMAIN x)
      sl   == SelectSeq(rows, LAMBDA x : "slot" \in DOMAIN x)
      RECURSIVE Mk(_)
      Mk(j) == IF j > Len(sl) THEN ("r" :> (IF PType = PT_QUADS THEN "quad" ELSE "triple"))
               ELSE (sl[j].slot :> sl[j].w) @@ Mk(j + 1)
  IN ent \o <<Mk(1)>>

Expected ==            \* the statement just written, as the reader should see it
  IF PType = PT_TRIPLES THEN [s |-> Den(cur[1]), p |-> Den(cur[2]), o |-> Den(cur[3])]
  ELSE IF PType = PT_QUADS THEN [s |-> Den(cur[1]), p |-> Den(cur[2]), o |-> Den(cur[3]), g |-> Den(cur[4])]
  ELSE [s |-> Den(cur[1]), p |-> Den(cur[2]), o |-> Den(cur[3]), g |-> Den(gcur)]

Commit ==
  /\ pc = "commit"
  /\ LET rw == StmtRows
         r2 == RdRun(rd, rw, 1)
     IN /\ rd' = Settle(r2)
        /\ bad' = IF bad # "" THEN bad
                  ELSE IF r2.err # "" THEN "Valid:" \o r2.err
                  ELSE IF r2.n # 1 \/ r2.item # Expected THEN "Faithful:statement"
                  ELSE IF r2.aud.re > 0 THEN "Tight:redundant-entry"
                  ELSE IF r2.aud.me > 0 THEN "Tight:missed-elision"
                  ELSE IF r2.aud.mz > 0 THEN "Tight:missed-zero"
                  ELSE ""
        /\ buf' = Flush(buf + Len(rw))
        /\ hist' = IF HistLen > 0 THEN Append(hist, [op |-> "stmt", st |-> cur, rows |-> rw]) ELSE hist
  /\ pc' = "idle" /\ cur' = <<>> /\ rows' = <<>>
  /\ tabs' = [tabs EXCEPT !.C = NoClaims]          \* (the code clears at the next start_row; same observable behaviour)
  /\ UNCHANGED <<rep, gcur>>

GraphBegin(g) ==       \* GraphStream.graph(): encode_graph + graph_start row, extended without bounds check
  /\ pc = "idle" /\ PType = PT_GRAPHS /\ ~gopen
  /\ (HistLen = 0 \/ Len(hist) < HistLen)
  /\ g \in PoolG
  /\ (CheckFits => Fits(<<g>>))
  /\ LET e  == EncTerm([tabs EXCEPT !.C = NoClaims], g)                    \* start_row
         rw == e.rows \o <<[r |-> "gs", g |-> e.w]>>
         r2 == RdRun(rd, rw, 1)
     IN /\ e.rej = ""
        /\ tabs' = [e.tb EXCEPT !.C = NoClaims]
        /\ rd' = Settle(r2)
        /\ bad' = IF bad # "" THEN bad
                  ELSE IF r2.err # "" THEN "Valid:" \o r2.err
                  ELSE IF r2.g # <<Den(g)>> THEN "Faithful:graph-name"
                  ELSE IF r2.aud.re > 0 THEN "Tight:redundant-entry"
                  ELSE IF r2.aud.mz > 0 THEN "Tight:missed-zero"
                  ELSE ""
        /\ buf' = IF FrameSize = 0 THEN 0 ELSE buf + Len(rw)
        /\ hist' = IF HistLen > 0 THEN Append(hist, [op |-> "gs", g |-> g, rows |-> rw]) ELSE hist
  /\ gcur' = g
  /\ UNCHANGED <<rep, pc, cur, rows>>

GraphEnd ==
  /\ pc = "idle" /\ PType = PT_GRAPHS /\ gopen
  /\ LET rw == <<[r |-> "ge"]>>
         r2 == RdRun(rd, rw, 1)
     IN /\ rd' = Settle(r2)
        /\ bad' = IF bad # "" THEN bad ELSE IF r2.err # "" THEN "Valid:" \o r2.err ELSE ""
        /\ buf' = Flush(buf + 1)
        /\ hist' = IF HistLen > 0 THEN Append(hist, [op |-> "ge", rows |-> rw]) ELSE hist
  /\ gcur' = NoTerm
  /\ UNCHANGED <<tabs, rep, pc, cur, rows>>

Next ==
  \/ Enroll
  \/ \E ns \in NsPool : Namespace(ns)
  \/ Begin
  \/ \E t \in PoolS \cup PoolP \cup PoolO \cup PoolG : SlotStep(t) \/ SlotReject(t)
  \/ Commit
  \/ \E g \in PoolG : GraphBegin(g)
  \/ GraphEnd

Spec == Init /\ [][Next]_vars

---------------------------------------------------------------------------
(* properties *)

Good == bad = ""                                   \* C01 + C03 + C19 (+ C20 when AllowReject)

TablesBounded ==                                   \* C05 (writer side): live entries and ids within the size
  /\ Len(tabs.N.ord) <= MaxN /\ Len(tabs.P.ord) <= MaxP /\ Len(tabs.D.ord) <= MaxD
  /\ \A k \in DOMAIN tabs.N.idx : tabs.N.idx[k] \in 1..MaxN
  /\ \A k \in DOMAIN tabs.P.idx : tabs.P.idx[k] \in 1..MaxP
  /\ \A k \in DOMAIN tabs.D.idx : tabs.D.idx[k] \in 1..MaxD

Mirrored ==                                        \* C05: the reader's tables hold what the writer believes
  pc = "idle" =>
    /\ \A k \in DOMAIN tabs.N.idx : tabs.N.idx[k] \in DOMAIN rd.names /\ rd.names[tabs.N.idx[k]] = k
    /\ \A k \in DOMAIN tabs.P.idx : tabs.P.idx[k] \in DOMAIN rd.pfx /\ rd.pfx[tabs.P.idx[k]] = k
    /\ \A k \in DOMAIN tabs.D.idx : tabs.D.idx[k] \in DOMAIN rd.dts /\ rd.dts[tabs.D.idx[k]] = k

BufBounded ==                                      \* C11 (write side): from the second statement on, fewer than FrameSize rows pending
  FrameSize > 0 /\ PType # PT_GRAPHS /\ ~NsDecl =>  \* (namespace rows and graph brackets enter the flow without a bounds check)
    (pc = "idle" /\ DOMAIN rd.prev # {} => buf < FrameSize)

(* simulation: print the behaviour when the history is full *)
PrintHist ==
  (HistLen > 0 /\ ((pc = "idle" /\ Len(hist) >= HistLen /\ ~gopen) \/ pc = "failed"))
    => PrintT("BEHAVIOUR " \o ToJson([bad |-> bad, hist |-> hist]))

View == <<tabs, rep, pc, cur, rows, gcur, buf, rd, bad>>

(* state-graph comparison at statement granularity (DESIGN.md 4.3): the projection of an idle state, printed once per state, *)
(* and the term pools, so that the harness can walk the same graph on real Stream objects                                    *)
TabKey(t) == [ord |-> t.ord, ix |-> [i \in 1..Len(t.ord) |-> t.idx[t.ord[i]]], la |-> t.la, lu |-> t.lu]
IdleKey == [N |-> TabKey(tabs.N), P |-> TabKey(tabs.P), D |-> TabKey(tabs.D), rep |-> rep, gcur |-> gcur, buf |-> buf]
PrintIdle == (pc = "idle" /\ bad = "") => PrintT("IDLE " \o ToJson(IdleKey))
PrintPools == pc = "new" => PrintT("POOLS " \o ToJson([s |-> PoolS, p |-> PoolP, o |-> PoolO, g |-> PoolG, ns |-> NsPool]))
=============================================================================
