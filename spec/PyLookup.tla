----------------------------- MODULE PyLookup -----------------------------
(***************************************************************************)
(* Tier 2 -- one writer lookup table (serialize/lookup.py: Lookup +         *)
(* LookupEncoder) and its reader mirror (parse/lookup.py: LookupDecoder),   *)
(* for each of the three term-index rules, quotiented by key renaming:      *)
(* neither side ever inspects a key except for the empty string in the      *)
(* prefix rule, so a resident key is identified by its index.               *)
(*                                                                          *)
(*   code                                          action                   *)
(*   LookupEncoder.encode_entry_index (resident)   EntryHit(i)              *)
(*   LookupEncoder.encode_entry_index (new key)    EntryMiss(isEmpty)       *)
(*     + LookupDecoder.assign_entry                  (same step: the entry  *)
(*                                                    row reaches the reader)*)
(*   encode_{name,prefix,datatype}_term_index      Term                     *)
(*     + decode_{name,prefix,datatype}_term_index                           *)
(*                                                                          *)
(* The reachable set is closed under every next key, so the invariants      *)
(* hold for histories of any length (property C05).                         *)
(***************************************************************************)
EXTENDS Integers, Sequences, FiniteSets, TLC, Json

CONSTANTS Size,      \* table size, >= 1
          Rule       \* "name" | "prefix" | "datatype"

None == -1

VARIABLES
  lru,     \* Seq of indices, least recently used first   (OrderedDict order of Lookup.data)
  lastA,   \* LookupEncoder.last_assigned_index
  lastU,   \* LookupEncoder.last_reused_index
  emptyAt, \* index at which the empty string is resident, 0 if it is not (prefix rule only)
  sync,    \* sync[i]: reader slot i holds the key the writer has at index i
  rLastA,  \* LookupDecoder.last_assigned_index
  rLastU,  \* LookupDecoder.last_reused_index
  pc,      \* "idle" | "term"
  cur,     \* index of the key whose use is in progress
  out,     \* <<entry id or None, term id or None>> of the use in progress / just finished
  ok       \* everything resolved to the intended key so far, and every id was in range

vars == <<lru, lastA, lastU, emptyAt, sync, rLastA, rLastU, pc, cur, out, ok>>
St == [lru |-> lru, lastA |-> lastA, lastU |-> lastU, emptyAt |-> emptyAt, sync |-> sync,
       rLastA |-> rLastA, rLastU |-> rLastU, pc |-> pc, cur |-> cur, out |-> out, ok |-> ok]

Init ==
  /\ lru = <<>> /\ lastA = 0 /\ lastU = 0 /\ emptyAt = 0
  /\ sync = [i \in 1..Size |-> FALSE]
  /\ rLastA = 0 /\ rLastU = 0
  /\ pc = "idle" /\ cur = 0 /\ out = <<None, None>> /\ ok = TRUE

Resident == {lru[j] : j \in 1..Len(lru)}
ToEnd(s, i) == Append(SelectSeq(s, LAMBDA x : x # i), i)          \* OrderedDict.move_to_end

EntryHit(i) ==               \* encode_entry_index: key resident -> make_last_to_evict, returns None
  /\ pc = "idle" /\ i \in Resident
  /\ lru' = ToEnd(lru, i)
  /\ pc' = "term" /\ cur' = i /\ out' = <<None, None>>
  /\ UNCHANGED <<lastA, lastU, emptyAt, sync, rLastA, rLastU, ok>>

EntryMiss(isEmpty) ==        \* encode_entry_index: KeyError -> Lookup.insert ; the entry row is ingested by the reader
  /\ pc = "idle"
  /\ (isEmpty => Rule = "prefix" /\ emptyAt = 0)
  /\ LET full == Len(lru) = Size                                   \* Lookup._evicting
         ix   == IF full THEN Head(lru) ELSE Len(lru) + 1          \* popitem(last=False) reuses the index
         eid  == IF ix = lastA + 1 THEN 0 ELSE ix
         rid  == IF eid = 0 THEN rLastA + 1 ELSE eid               \* LookupDecoder.assign_entry
     IN /\ lru' = Append(IF full THEN Tail(lru) ELSE lru, ix)
        /\ lastA' = ix
        /\ emptyAt' = IF isEmpty THEN ix ELSE IF emptyAt = ix THEN 0 ELSE emptyAt
        /\ rLastA' = rid
        /\ sync' = IF rid \in 1..Size
                   THEN [[sync EXCEPT ![ix] = FALSE] EXCEPT ![rid] = (rid = ix)]
                   ELSE [sync EXCEPT ![ix] = FALSE]
        /\ ok' = (ok /\ rid \in 1..Size /\ eid \in 0..Size)
        /\ cur' = ix /\ out' = <<eid, None>>
  /\ pc' = "term"
  /\ UNCHANGED <<lastU, rLastU>>

Term ==                      \* encode_<rule>_term_index, then decode_<rule>_term_index on the reader
  /\ pc = "term"
  /\ pc' = "idle"
  /\ UNCHANGED <<lastA, emptyAt, sync, rLastA, cur>>
  /\ CASE Rule = "name" ->
            LET tid == IF cur = lastU + 1 THEN 0 ELSE cur
                ref == IF tid = 0 THEN rLastU + 1 ELSE tid
            IN /\ lastU' = cur /\ lru' = ToEnd(lru, cur)
               /\ rLastU' = ref
               /\ out' = <<out[1], tid>>
               /\ ok' = (ok /\ tid \in 0..Size /\ ref = cur /\ sync[cur])
       [] Rule = "datatype" ->
            /\ lastU' = cur /\ lru' = ToEnd(lru, cur)
            /\ rLastU' = cur
            /\ out' = <<out[1], cur>>
            /\ ok' = (ok /\ cur \in 1..Size /\ sync[cur])           \* 0 is never a valid datatype reference
       [] Rule = "prefix" ->
            IF cur = emptyAt /\ lastU = 0
            THEN \* `if not value and previous_index == 0: return 0` -- nothing is touched
                 /\ UNCHANGED <<lastU, lru, rLastU>>
                 /\ out' = <<out[1], 0>>
                 /\ ok' = (ok /\ rLastU = 0)                        \* reader: 0 with no previous prefix = ""
            ELSE LET tid == IF lastU = 0 THEN cur ELSE IF cur = lastU THEN 0 ELSE cur
                     ref == IF tid = 0 THEN rLastU ELSE tid
                 IN /\ lastU' = cur /\ lru' = ToEnd(lru, cur)
                    /\ rLastU' = ref
                    /\ out' = <<out[1], tid>>
                    /\ ok' = (ok /\ tid \in 0..Size /\ ref = cur /\ sync[cur])

Next ==
  \/ \E i \in 1..Size : EntryHit(i)
  \/ EntryMiss(FALSE)
  \/ EntryMiss(TRUE)
  \/ Term

Spec == Init /\ [][Next]_vars

---------------------------------------------------------------------------
Resolves  == ok                                              \* every id on the wire resolves to the intended key
Bounded   == Len(lru) <= Size /\ Resident \subseteq 1..Size /\ Cardinality(Resident) = Len(lru)
Registers == pc = "idle" => (rLastA = lastA /\ rLastU = lastU)   \* reader registers mirror the writer's
IdsInRange == out[1] \in {None} \cup 0..Size /\ out[2] \in {None} \cup 0..Size

(* every transition, for the state-graph comparison with the real objects *)
LogTr == PrintT("TR " \o ToJson(<<St, St'>>))
=============================================================================
