------------------------------ MODULE PyConfig ------------------------------
(***************************************************************************)
(* Tier 2 (+ Tier-1 operators) -- the configuration logic of pyjelly.       *)
(*                                                                          *)
(* Part A (property C06): which frame flow a Stream gets, which type pairs  *)
(* it refuses, and when buffered rows are flushed, for the whole lattice    *)
(*   stream class x logical type x delimited x frame_size x flow           *)
(* (options.py, serialize/streams.py:48-96, serialize/flows.py, the         *)
(* stream_frames functions of both integrations).                           *)
(*   code                                   action                          *)
(*   Stream.__init__ / infer_flow /         Construct                       *)
(*     validate_type_compatibility                                          *)
(*   stream.enroll                          Enroll                          *)
(*   stream.triple/quad + frame_from_bounds Statement                       *)
(*   flow.frame_from_graph / _dataset       EndOfSink                       *)
(*   final to_stream_frame                  FinalFlush                      *)
(* Invariant NoSilentDrop: when the call returns, either it raised or       *)
(* nothing is left in the buffer.                                           *)
(*                                                                          *)
(* FlushGuard = "always" is the code as it is; "flat-only" is the former    *)
(* design (final flush only for flat logical types): TLC must find          *)
(* NoSilentDrop violated there, which shows the invariant is not vacuous.   *)
(*                                                                          *)
(* Part B (property C13): Tier-1 operators about headers and stream types.  *)
(***************************************************************************)
EXTENDS Integers, Sequences, FiniteSets, TLC, Json

CONSTANTS FlushGuard

SClasses   == {"triple", "quad", "graph"}
LTypes     == {0, 1, 2, 3, 4, 13, 14, 114}
FlowOpts   == {"inferred", "manual", "bounded", "flat_triples", "flat_quads", "graphs", "datasets"}
FrameSizes == {1, 2, 250}
DefaultFrameSize == 250

PTypeOf(sc) == CASE sc = "triple" -> 1 [] sc = "quad" -> 2 [] OTHER -> 3
ClassLT(kind) ==                 \* FrameFlow subclasses' class attribute logical_type
  CASE kind = "flat_triples" -> 1 [] kind = "flat_quads" -> 2 [] kind = "graphs" -> 3 [] kind = "datasets" -> 4 [] OTHER -> 0
FlowForType(lt) ==               \* flows.flow_for_type: base type = lt % 10
  CASE lt % 10 = 1 -> "flat_triples" [] lt % 10 = 2 -> "flat_quads" [] lt % 10 = 3 -> "graphs" [] OTHER -> "datasets"
DefaultDelimited(sc) == IF sc = "triple" THEN "flat_triples" ELSE "flat_quads"   \* default_delimited_flow_class
Bounded(kind) == kind \in {"bounded", "flat_triples", "flat_quads"}

(* Tier 1: physical/logical pairs the Jelly specification forbids *)
TriplesOnlyLT == {1, 3, 13}
SpecForbids(pt, lt) == pt # 0 /\ lt # 0 /\ ((pt = 1) # (lt \in TriplesOnlyLT))
ExpectedVersion(nsdecl) == IF nsdecl THEN 2 ELSE 1
FlatLT == {1, 2}
GroupedLT == {3, 4, 13, 14, 114}

(* Part C (beyond the listed properties): the dispatch tables of the API, as a total description *)
GuessOptionsLT(isQuads) == IF isQuads THEN 2 ELSE 1                       \* guess_options of both integrations
GuessStreamCls(lt, isQuads) == IF (lt % 10) # 3 /\ isQuads THEN "quad" ELSE "triple"     \* guess_stream picks the class ...
GuessStreamClass(lt, isQuads) ==                                                        \* ... and constructs it (type check)
  IF SpecForbids(PTypeOf(GuessStreamCls(lt, isQuads)), lt) THEN "JellyAssertionError" ELSE GuessStreamCls(lt, isQuads)
StreamForType(pt) == CASE pt = 1 -> "triple" [] pt = 2 -> "quad" [] pt = 3 -> "graph" [] OTHER -> "NotImplementedError"
FlowForTypeOrErr(lt) == IF lt % 10 \in 1..4 THEN FlowForType(lt) ELSE "NotImplementedError"
LTSeq == <<0, 1, 2, 3, 4, 13, 14, 114>>
Dispatch == [guess_options |-> [triples |-> GuessOptionsLT(FALSE), quads |-> GuessOptionsLT(TRUE)],
             guess_stream |-> [i \in 1..8 |-> [lt |-> LTSeq[i], triples |-> GuessStreamClass(LTSeq[i], FALSE), quads |-> GuessStreamClass(LTSeq[i], TRUE)]],
             stream_for_type |-> [i \in 1..4 |-> [pt |-> i - 1, cls |-> StreamForType(i - 1)]],
             flow_for_type |-> [i \in 1..8 |-> [lt |-> LTSeq[i], flow |-> FlowForTypeOrErr(LTSeq[i])]]]

VARIABLES cfg, pc, kind, flowLT, fsz, buf, pend, written, sinks, stmts, raised,
          graphs,    \* graphs of the current sink still to be written (an rdflib Dataset handed to a TripleStream is unpacked graph by graph)
          frames     \* frames handed out so far
vars == <<cfg, pc, kind, flowLT, fsz, buf, pend, written, sinks, stmts, raised, graphs, frames>>

Lattice == {c \in [sclass : SClasses, lt : LTypes, delimited : BOOLEAN, fs : FrameSizes, flow : FlowOpts, nsinks : {1, 2}, ngraphs : {1, 2}] :
              c.ngraphs = 2 => (c.sclass = "triple" /\ c.nsinks = 1)}

Init ==
  /\ cfg \in Lattice
  /\ pc = "construct"
  /\ kind = "" /\ flowLT = 0 /\ fsz = 0
  /\ buf = 0 /\ pend = 0 /\ written = 0
  /\ sinks = 0 /\ stmts = 0
  /\ raised = ""
  /\ graphs = 0 /\ frames = 0

Construct ==
  /\ pc = "construct"
  /\ LET k  == IF cfg.flow # "inferred" THEN cfg.flow
               ELSE IF ~cfg.delimited THEN "manual"
               ELSE IF cfg.lt # 0 THEN FlowForType(cfg.lt) ELSE DefaultDelimited(cfg.sclass)
         lt == IF cfg.flow # "inferred" THEN ClassLT(k)                 \* explicit flow: options.logical_type is not consulted
               ELSE IF cfg.lt # 0 THEN cfg.lt ELSE ClassLT(k)           \* `logical_type or self.__class__.logical_type`
         f  == IF cfg.flow # "inferred" THEN cfg.fs
               ELSE IF cfg.lt \in FlatLT THEN cfg.fs ELSE DefaultFrameSize   \* frame_size is only passed on for flat types
     IN /\ kind' = k /\ flowLT' = lt /\ fsz' = f
        /\ IF SpecForbids(PTypeOf(cfg.sclass), lt)
           THEN raised' = "JellyAssertionError" /\ pc' = "returned"
           ELSE raised' = "" /\ pc' = "enroll"
  /\ sinks' = cfg.nsinks /\ graphs' = cfg.ngraphs
  /\ UNCHANGED <<cfg, buf, pend, written, stmts, frames>>

Flush == /\ buf' = 0 /\ pend' = 0 /\ written' = written + pend /\ frames' = frames + (IF buf > 0 THEN 1 ELSE 0)     \* to_stream_frame: None if the flow is empty

Enroll ==                        \* once per stream; the options row goes into the flow
  /\ pc = "enroll"
  /\ buf' = buf + 1
  /\ pc' = "sink" /\ stmts' = 2
  /\ UNCHANGED <<cfg, kind, flowLT, fsz, pend, written, sinks, raised, graphs, frames>>

Statement ==                     \* 2 rows (an entry and the statement); GraphStream brackets are not counted
  /\ pc = "sink" /\ stmts > 0
  /\ stmts' = stmts - 1
  /\ IF Bounded(kind) /\ buf + 2 >= fsz
     THEN /\ buf' = 0 /\ pend' = 0 /\ written' = written + pend + 1 /\ frames' = frames + 1      \* frame_from_bounds
     ELSE /\ buf' = buf + 2 /\ pend' = pend + 1 /\ written' = written /\ frames' = frames
  /\ UNCHANGED <<cfg, pc, kind, flowLT, fsz, sinks, raised, graphs>>

EndOfSink ==                     \* frame_from_graph (TripleStream: after EVERY graph of the sink) / frame_from_dataset (QuadStream, GraphStream)
  /\ pc = "sink" /\ stmts = 0
  /\ IF (cfg.sclass = "triple" /\ kind = "graphs") \/ (cfg.sclass # "triple" /\ kind = "datasets")
     THEN Flush ELSE UNCHANGED <<buf, pend, written, frames>>
  /\ IF graphs > 1
     THEN pc' = "sink" /\ graphs' = graphs - 1 /\ stmts' = 2              \* next graph of the same Dataset
     ELSE pc' = "final" /\ graphs' = 0 /\ stmts' = stmts
  /\ UNCHANGED <<cfg, kind, flowLT, fsz, sinks, raised>>

FinalFlush ==                    \* end of stream_frames: `if <guard> and (frame := stream.flow.to_stream_frame())`
  /\ pc = "final"
  /\ IF FlushGuard = "always" \/ flowLT \in FlatLT
     THEN Flush ELSE UNCHANGED <<buf, pend, written, frames>>
  /\ IF sinks > 1
     THEN pc' = "sink" /\ sinks' = sinks - 1 /\ stmts' = 2 /\ graphs' = cfg.ngraphs      \* next sink, same stream (grouped entry points)
     ELSE pc' = "returned" /\ sinks' = 0 /\ stmts' = 0 /\ graphs' = 0
  /\ UNCHANGED <<cfg, kind, flowLT, fsz, raised>>

Next == Construct \/ Enroll \/ Statement \/ EndOfSink \/ FinalFlush
Spec == Init /\ [][Next]_vars

NoSilentDrop == pc = "returned" => (raised # "" \/ (pend = 0 /\ buf = 0 /\ written = 2 * cfg.nsinks * cfg.ngraphs))
OneFramePerGraph ==              \* C07, serializer side: a grouped flow hands out one frame per graph / dataset written
  pc = "returned" /\ raised = "" /\ ((cfg.sclass = "triple" /\ kind = "graphs") \/ (cfg.sclass # "triple" /\ kind = "datasets"))
     => frames = cfg.nsinks * cfg.ngraphs
RefusesForbidden == pc = "returned" /\ SpecForbids(PTypeOf(cfg.sclass), flowLT) => raised # ""

PrintDispatch == pc = "construct" => PrintT("DISPATCH " \o ToJson(Dispatch))
PrintOutcome ==
  pc = "returned" => PrintT("OUTCOME " \o ToJson([cfg |-> cfg, kind |-> kind, lt |-> flowLT, fsz |-> fsz, raised |-> raised,
                                                   written |-> written, left |-> pend, frames |-> frames]))
=============================================================================
