------------------------------ MODULE Framing ------------------------------
(***************************************************************************)
(* R7: frames are a transport grouping only.                                *)
(*                                                                          *)
(* Given a row sequence of length N, this spec enumerates EVERY way of      *)
(* cutting it into frames, with up to MaxEmpty empty frames inserted at     *)
(* any position (and optionally a frame that carries metadata).  A          *)
(* re-partitioning is the sequence of frame lengths; TLC prints every       *)
(* terminal one and the harness re-frames real byte streams accordingly.    *)
(*                                                                          *)
(* The Tier-1 statement of frame independence is that the reader's FrameCut *)
(* leaves every variable unchanged (JellyReader.RdStep on [r |-> "cut"]),   *)
(* checked here on an abstract reader whose state is the number of rows     *)
(* consumed: Consumed depends on the rows delivered, never on the cuts.     *)
(***************************************************************************)
EXTENDS Naturals, Sequences, TLC, Json

CONSTANTS N,          \* number of rows
          MaxEmpty    \* max number of empty frames

VARIABLES frames,     \* lengths of the frames closed so far
          open,       \* rows in the frame being filled
          done,       \* rows delivered in closed frames + open
          empties, fin
vars == <<frames, open, done, empties, fin>>

Init == frames = <<>> /\ open = 0 /\ done = 0 /\ empties = 0 /\ fin = FALSE

Row ==                       \* the next row goes into the open frame
  /\ ~fin /\ done < N
  /\ open' = open + 1 /\ done' = done + 1
  /\ UNCHANGED <<frames, empties, fin>>

Cut ==                       \* close a non-empty frame
  /\ ~fin /\ open > 0 /\ done < N
  /\ frames' = Append(frames, open) /\ open' = 0
  /\ UNCHANGED <<done, empties, fin>>

EmptyFrame ==                \* an empty frame (only between frames)
  /\ ~fin /\ open = 0 /\ empties < MaxEmpty
  /\ frames' = Append(frames, 0) /\ empties' = empties + 1
  /\ UNCHANGED <<open, done, fin>>

Finish ==
  /\ ~fin /\ done = N /\ open > 0
  /\ frames' = Append(frames, open) /\ open' = 0 /\ fin' = TRUE
  /\ UNCHANGED <<done, empties>>

TrailingEmpty ==
  /\ fin /\ empties < MaxEmpty /\ frames[Len(frames)] # 0
  /\ frames' = Append(frames, 0) /\ empties' = empties + 1
  /\ UNCHANGED <<open, done, fin>>

Next == Row \/ Cut \/ EmptyFrame \/ Finish \/ TrailingEmpty
Spec == Init /\ [][Next]_vars

RECURSIVE Sum(_)
Sum(s) == IF s = <<>> THEN 0 ELSE Head(s) + Sum(Tail(s))

Consumed == Sum(frames) + open = done              \* what has been consumed is independent of the cuts
Complete == fin => Sum(frames) = N
PrintPartition == fin => PrintT("PARTITION " \o ToJson(frames))
=============================================================================
