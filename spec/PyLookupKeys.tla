---------------------------- MODULE PyLookupKeys ----------------------------
(***************************************************************************)
(* The lookup table pair with CONCRETE keys, and the proof obligation that  *)
(* makes the index-canonical quotient (PyLookup) legitimate:                *)
(*                                                                          *)
(*      every behaviour of this module, seen through the mapping below,     *)
(*      is a behaviour of PyLookup            (Refines == Abs!Spec)         *)
(*                                                                          *)
(* so an invariant TLC proves for PyLookup (closed under every next key)    *)
(* holds for every concrete key history over ANY alphabet: the quotient     *)
(* forgets only the names of the keys, which neither side inspects except   *)
(* for the empty string in the prefix rule (key 0 here).                    *)
(* TLC checks the refinement for sizes <= 4 with Size + 2 keys.             *)
(***************************************************************************)
EXTENDS Integers, Sequences, FiniteSets, TLC

CONSTANTS Size, Rule, Keys        \* Keys: a set of integers; 0 plays the empty string (prefix rule only)

None == -1
VARIABLES order,    \* Seq of keys, least recently used first            (Lookup.data, key order)
          idx,      \* key -> index for resident keys                     (Lookup.data)
          lastA, lastU,
          rtab,     \* reader: index -> key or None                       (LookupDecoder.data)
          rLastA, rLastU,
          pc, curKey, out, ok
vars == <<order, idx, lastA, lastU, rtab, rLastA, rLastU, pc, curKey, out, ok>>

Init ==
  /\ order = <<>> /\ idx = [k \in {} |-> 0] /\ lastA = 0 /\ lastU = 0
  /\ rtab = [i \in 1..Size |-> None] /\ rLastA = 0 /\ rLastU = 0
  /\ pc = "idle" /\ curKey = None /\ out = <<None, None>> /\ ok = TRUE

ToEnd(s, k) == Append(SelectSeq(s, LAMBDA x : x # k), k)

Entry(k) ==                    \* LookupEncoder.encode_entry_index(k), the entry row ingested by the reader
  /\ pc = "idle" /\ k \in Keys
  /\ (k = 0 => Rule = "prefix")
  /\ IF k \in DOMAIN idx
     THEN /\ order' = ToEnd(order, k) /\ out' = <<None, None>>
          /\ UNCHANGED <<idx, lastA, rtab, rLastA, ok>>
     ELSE LET full == Len(order) = Size
              ix   == IF full THEN idx[Head(order)] ELSE Len(order) + 1
              eid  == IF ix = lastA + 1 THEN 0 ELSE ix
              rid  == IF eid = 0 THEN rLastA + 1 ELSE eid
          IN /\ order' = Append(IF full THEN Tail(order) ELSE order, k)
             /\ idx' = (k :> ix) @@ [x \in (DOMAIN idx \ (IF full THEN {Head(order)} ELSE {})) |-> idx[x]]
             /\ lastA' = ix
             /\ rLastA' = rid
             /\ rtab' = IF rid \in 1..Size THEN [rtab EXCEPT ![rid] = k] ELSE rtab
             /\ ok' = (ok /\ rid \in 1..Size /\ eid \in 0..Size)
             /\ out' = <<eid, None>>
  /\ pc' = "term" /\ curKey' = k
  /\ UNCHANGED <<lastU, rLastU>>

Resolves(ref, k) == ref \in 1..Size /\ rtab[ref] = k

Term ==
  /\ pc = "term" /\ pc' = "idle"
  /\ UNCHANGED <<idx, lastA, rtab, rLastA, curKey>>
  /\ LET cur == idx[curKey] IN
     CASE Rule = "name" ->
            LET tid == IF cur = lastU + 1 THEN 0 ELSE cur
                ref == IF tid = 0 THEN rLastU + 1 ELSE tid
            IN /\ lastU' = cur /\ order' = ToEnd(order, curKey) /\ rLastU' = ref
               /\ out' = <<out[1], tid>> /\ ok' = (ok /\ tid \in 0..Size /\ Resolves(ref, curKey))
       [] Rule = "datatype" ->
            /\ lastU' = cur /\ order' = ToEnd(order, curKey) /\ rLastU' = cur
            /\ out' = <<out[1], cur>> /\ ok' = (ok /\ Resolves(cur, curKey))
       [] Rule = "prefix" ->
            IF curKey = 0 /\ lastU = 0
            THEN /\ UNCHANGED <<lastU, order, rLastU>> /\ out' = <<out[1], 0>> /\ ok' = (ok /\ rLastU = 0)
            ELSE LET tid == IF lastU = 0 THEN cur ELSE IF cur = lastU THEN 0 ELSE cur
                     ref == IF tid = 0 THEN rLastU ELSE tid
                 IN /\ lastU' = cur /\ order' = ToEnd(order, curKey) /\ rLastU' = ref
                    /\ out' = <<out[1], tid>> /\ ok' = (ok /\ tid \in 0..Size /\ Resolves(ref, curKey))

Next == (\E k \in Keys : Entry(k)) \/ Term
Spec == Init /\ [][Next]_vars

AllResolve == ok

---------------------------------------------------------------------------
(* the quotient map *)
KeyAt(i) == IF \E k \in DOMAIN idx : idx[k] = i THEN CHOOSE k \in DOMAIN idx : idx[k] = i ELSE None
Abs == INSTANCE PyLookup WITH
         lru     <- [j \in 1..Len(order) |-> idx[order[j]]],
         emptyAt <- IF 0 \in DOMAIN idx THEN idx[0] ELSE 0,
         sync    <- [i \in 1..Size |-> KeyAt(i) # None /\ rtab[i] = KeyAt(i)],
         cur     <- IF curKey = None THEN 0 ELSE IF curKey \in DOMAIN idx THEN idx[curKey] ELSE 0
Refines == Abs!Spec

(* ... and the abstraction proved correct by TLAPS for EVERY size, key set and eviction choice (spec/proofs/LookupAbs.tla):   *)
(* this module, hence pyjelly's LRU table pair as bound to it by C05, is one of its implementations.                          *)
Proved == INSTANCE LookupAbs WITH
            Key    <- Keys, Empty <- 0, NoKey <- None,
            n      <- Len(order),
            wkey   <- [i \in 1..Size |-> KeyAt(i)],
            rkey   <- rtab,
            cur    <- IF curKey = None THEN 0 ELSE IF curKey \in DOMAIN idx THEN idx[curKey] ELSE 0,
            eid    <- IF out[1] = None THEN 0 ELSE out[1],
            tid    <- IF out[2] = None THEN 0 ELSE out[2]
ImplementsProved == Proved!Spec
=============================================================================
