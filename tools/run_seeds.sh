#!/bin/sh
# tools/run_seeds.sh [repo]   (SEEDS_ONLY='<extended regex on the seed id>' restricts the set)  -- apply every seeded change to a repository copy (default $VP_RUN_REPO or /repo), run the check of the
# property it breaks (quick tier), undo it.  Prints one line per seed:  <seed> <property> exit=<rc> violations=<n>
R="${1:-${VP_RUN_REPO:-/repo}}"
cd "$(dirname "$0")/.." || exit 2
for d in seeded/*/; do
  id=$(basename "$d"); prop=${id%%-*}
  if [ -n "${SEEDS_ONLY:-}" ] && ! echo "$id" | grep -Eq "$SEEDS_ONLY"; then continue; fi
  if ! git -C "$R" apply --check "$PWD/$d/patch.diff" 2>/dev/null; then echo "$id $prop DOES-NOT-APPLY"; continue; fi
  git -C "$R" apply "$PWD/$d/patch.diff"
  out=$(VERIF_REPO="$R" ./check "$prop" --tier quick 2>&1); rc=$?
  n=$(echo "$out" | grep -c '^VIOLATION')
  echo "$id $prop exit=$rc violation_lines=$n $(echo "$out" | grep -m1 'what:' | cut -c1-150)"
  git -C "$R" checkout -- .
done
