#!/usr/bin/env python3
"""Regenerate MANIFEST.json from the table below (properties without a driver stay under not_applicable)."""
import json
import os

HERE = os.path.dirname(os.path.dirname(os.path.abspath(__file__)))
props = [json.loads(l) for l in open(os.path.join(HERE, "properties.jsonl"))]

TB = ("Trusted: TLC 1.8.0; harness/wire.py (own protobuf codec); the projections in harness/terms.py; "
      "the transcription R1-R8 of the Jelly format in spec/JellyReader.tla (DESIGN.md 3.1); CPython.")

CHECKS = {
 "C20": ("fault_enumeration", "6 C20",
         "Rejections (unsupported term, typed literal with the datatype table disabled, tuple ending early, unencodable inner term of a quoted triple, statement too large) are injected by the PyWriter model "
         "(action SlotReject) at every slot and random positions, and enumerated for TripleStream/QuadStream (cause x slot x nesting x earlier slots repeated / fresh / touching no table) and GraphStream (cause x slot x position); the real streams are driven catch-and-continue -- first of all with the rejected statement repaired, so that its earlier slots repeat exactly -- and the bytes judged by TLC against the accepted statements. "
         "TLC also closes the rejection universes exhaustively (Good holds with the refusal guard, is violated without it).",
         "TLC model checking + simulation of PyWriter with SlotReject, replayed catch-and-continue into real Streams + TLC trace judging (prefix validity)"),
 "C01": ("model_checking", "6 C01",
         "State-graph comparison at the granularity of one public call: every reachable idle state x every call of small slices (triple / quad / namespace_declaration / GraphStream.graph(g, 0..k triples); refused calls included: the stream must then be failed) is executed on real Stream objects, the reachable state sets equal TLC's and every real call is re-executed by TLC on PyWriter (spec/TraceWriter.tla: same rows, same successor, composite clause Good), so for those slices the model's exhaustive theorem transfers to the code; independently of PyWriter, TLC evaluates on every real edge the inductive step of the Tier-1 theorem (the real rows, read from the reader state mirroring the real writer state, are valid, denote the call, and re-establish the mirror), which by induction covers every history of calls inside the slice. "
         "TLC closes the composition PyWriter o JellyReader (per-statement invariants Good/Mirrored/TablesBounded/BufBounded) on slice universes, i.e. for histories of any length within each slice; "
         "TLC-simulated behaviours of larger universes are replayed op by op into real Streams (model rows = real rows) and through the whole-sequence entry points; "
         "every byte string is judged by TLC (TraceReader) and parsed back with pyjelly; long deterministic workloads wrap tables of 128/256/4096 entries. Exhaustive per slice, sampled beyond; string-level variety through four substitution classes (identity, realistic, unicode, odd content).",
         "TLA+ model checking (TLC) of PyWriter o JellyReader + replay of TLC behaviours into real Streams + TLC trace judging of the bytes"),
 "C02": ("model_checking", "6 C02",
         "State graph of the serializer with the rdflib term encoder under the Stream (RDF 1.1 slices: every reachable state x every public call on real objects; TLC evaluates the Tier-1 inductive step on every real edge and compares it with PyWriter). RDF 1.1 behaviours of PyWriter (TLC simulation) are built as rdflib Graph/Dataset (default, IRI and bnode graph names; plain, language-tagged and typed objects incl. xsd:string and non-canonical lexical forms) and written through Graph.serialize with TripleStream / QuadStream / GraphStream, "
         "flat and grouped logical types, delimited and non-delimited flat, and through the stream functions; the bytes are judged by TLC as a SET against what rdflib reports as the input, and parsed back through Graph.parse / Dataset.parse, parse_jelly_to_graph and parse_jelly_flat. "
         "Every fifth behaviour is written with tables smaller than one statement may need (refusal allowed, silent corruption not). The composition PyWriter o JellyReader is closed exhaustively on the TRIPLES/QUADS/GRAPHS slices.",
         "TLC simulation + model checking of PyWriter, replay through the rdflib entry points, TLC trace judging with set semantics"),
 "C03": ("model_checking", "6 C03",
         "The independent decoder IS the Tier-1 TLA+ reader: every stream the real serializer writes (model-generated inputs, all generic entry points) is decoded by /verif's own codec and validated row by row by TLC, including denotation = input; so is every stream the repository's OWN test suite makes pyjelly write (recorded from outside by a pytest plugin on a scratch copy of the working tree). RDF 1.1 behaviours alternate between the generic and the rdflib term encoder; the empty input goes through every entry point of both integrations.",
         "TLC trace validation of real serializer output against spec/JellyReader.tla; TLC model checking of PyWriter => reader never errs"),
 "C04": ("model_checking", "6 C04",
         "Reader state graph: TLC closes JellyProducer in tiny universes and prints every transition (reader state, legal row, reader state', item); the harness walks the graph on a real Decoder under the generic AND the rdflib adapters, one test per transition (item and projected state equal). "
         "JellyProducer is the nondeterministic generator of exactly the row sequences the Tier-1 reader accepts (any slot/eviction choice, split, explicit-or-zero id, elision or not, early/redundant entries, repeated options, cuts, empty frames, "
         "ids at the top of 4096-entry tables, disabled tables, versions 1-2); TLC simulates it, each behaviour carries its denotation, /verif's codec writes the bytes, and the six parse entry points must return exactly that denotation. Sampled, not exhaustive.",
         "TLC simulation of spec/JellyProducer.tla (Tier-1 producer) replayed as bytes into the real parsers; denotation computed by TLC"),
 "C15": ("model_checking", "6 C15",
         "TLC-generated RDF 1.1 streams (reference encoder with arbitrary legal choices; PyWriter behaviours through the real serializers) go through all six parse entry points: flat = concat(grouped) = to_graph within an integration and rdflib = generic term for term, "
         "with the TLC-computed denotation as arbiter (language tags and datatypes are compared exactly between the integrations); corresponding generic/rdflib statement iterators with equal options must serialize to identical bytes (default-graph identifiers equal to, not identical with, rdflib's constant).",
         "differential replay of TLC-generated behaviours (JellyProducer, PyWriter) through both integrations, arbitrated by the TLA+ denotation; TLC enumeration of the usage lattice (spec/PyUsage.tla) replayed on the parsers"),
 "C16": ("fault_enumeration", "6 C16",
         "Reader state graph: for every reachable reader state of tiny universes TLC prints every catalogued illegal next row (confirmed invalid by the TLA+ reader); each is applied to a real Decoder (generic and rdflib adapters) brought into that state and must raise. "
         "One catalogued violation (12 classes) is injected by the producer model after FaultAt rows of an arbitrary legal stream; only rows the Tier-1 reader rejects at that very row qualify. Both integrations' flat parsers are drained item by item: "
         "an exception must be raised and everything yielded before must be the denotation of the earlier rows. Streams without any options row (zero bytes, only empty frames) must be rejected by all six entry points.",
         "TLC simulation of JellyProducer.Violate (fault injection confirmed invalid by the TLA+ reader) replayed into the real parsers"),
 "C05": ("model_checking", "6 C05",
         "TLAPS proves Mirrored/Bounded/Resolves of the table pair for EVERY size, key set, rule and eviction choice (spec/proofs/LookupAbs.tla, re-checked on every run with a wrong variant that must fail), and TLC checks that the concrete-key model implements that abstraction. Finite-state proof per size and rule on the index-canonical quotient model (closed under every next key, hence all histories; the concrete-key model PyLookupKeys is checked by TLC to REFINE the quotient), transferred to the code by walking the same state graph on real LookupEncoder/LookupDecoder objects: "
         "state and transition counts equal, transition sets equal for small sizes, every real transition judged by the table contract; long random histories for sizes 8..4096; end-to-end histories through the serializer (tables of 1-4 slots, statements mixing resident and new keys) judged by TLC.",
         "TLC exhaustive model checking of spec/PyLookup.tla + state-graph comparison on real objects"),
 "C06": ("model_checking", "6 C06",
         "TLC enumerates the complete lattice (3 stream classes x 8 logical types x delimited x frame_size{1,2,250} x {inferred flow, 6 FrameFlow classes} x {1,2} sinks = 2016 points, plus 336 points for a Dataset of two graphs unpacked by a TripleStream) on spec/PyConfig.tla with invariants NoSilentDrop and OneFramePerGraph "
         "(and must find it violated when the model's final flush is restricted to flat types); every point is replayed on the real classes through stream_frames of both integrations and, with the class guessed, through flat_/grouped_stream_to_file, Graph.serialize, sink.serialize; "
         "an accepted call must leave stream.flow empty and its bytes are judged by TLC (denotation = input).",
         "TLC exhaustive model checking of spec/PyConfig.tla + replay of every lattice point into the real serializers + TLC trace judging"),
 "C07": ("model_checking", "6 C07",
         "spec/Framing.tla enumerates every partition of an N-row sequence into frames (N = 5..8 quick, ..11 thorough; with empty frames); every partition of every TLC-generated row sequence is re-framed by /verif's codec, every second frame carrying metadata, "
         "and parsed flat and grouped by both integrations against the TLC-computed denotation (one sink per frame, content per frame, metadata visible); the row sequences come from all nine reference-encoder configurations (TRIPLES, QUADS, GRAPHS x three table configurations) and from pyjelly's own writer. Grouped serialization of sink sequences through one shared stream: one frame per non-empty sink, judged by TLC.",
         "TLC exhaustive enumeration of frame partitions (spec/Framing.tla) replayed into the real parsers; TLC trace judging of grouped serializer output"),
 "C08": ("model_checking", "6 C08",
         "spec/PyHint.tla (byte layout of PyFraming): TLC checks exhaustively that for every (mode, first-frame length 0..300 and the varint boundaries, first-row length) the code's truth table answers the mode the stream was written in; "
         "every distinct 3-byte header is fed to the real delimited_jelly_hint; real streams from the real writers in both modes, with options rows and frames of every small length including 10, must be detected and parse to equal results.",
         "TLC exhaustive model checking of spec/PyHint.tla + replay of every header into delimited_jelly_hint + real both-mode streams"),
 "C09": ("model_checking", "6 C09",
         "TLC explores every schedule of short reads (1,2,3,5,rest) of spec/PyFraming.tla over concrete small streams (invariants ChunkingIrrelevant, ClassifiedRight); every schedule prefix the model explored is replayed on a non-seekable raw source in front of the real parsers on real streams, "
         "continued with reads of 1, 7 or unlimited bytes (including streams whose first frame is exactly 10..13 bytes long); buffered seekable sources (BytesIO, BufferedReader, gzip) are compared with the all-at-once parse.",
         "TLC model checking of spec/PyFraming.tla over all read schedules + replay of the schedules into the real parsers"),
 "C10": ("fault_enumeration", "6 C10",
         "Every byte offset of every real delimited stream is a cut; the streaming parser is drained item by item and each record (frame extents, items per frame, cut, yielded, outcome) is judged by TLC (spec/TraceFraming.tla: prefix, completeness, nothing from an undelivered frame); "
         "TLC also closes spec/PyFraming.tla for every cut of small concrete streams over all read schedules (PrefixOnly, NeverMore).",
         "byte-level exhaustive truncation per stream, TLC trace judging (TraceFraming) + TLC model checking of PyFraming cuts"),
 "C11": ("model_checking", "6 C11",
         "spec/PyPipeline.tla models the generator pipelines one action per generator step; TLC checks the action properties BoundedBuffering, FrameBeforeInput, NoFurtherThanCompleting and termination on the write side and Live / NoReadAhead on the read side for every stall point, "
         "and refutes a read-ahead serializer and a look-ahead parser (non-vacuity). Real pipelines (flat_stream_to_frames, stream_frames over TRIPLES/QUADS statement iterators, both integrations, frame size through options.frame_size or through an explicit FrameFlow object) are instrumented from outside and every event log is validated by TLC as a behaviour of the model "
         "with the Tier-1 clauses evaluated on logged values (spec/TracePipeline.tla); on the read side a source that stalls forever after frame j must see every item of frames 1..j yielded.",
         "TLC model checking of spec/PyPipeline.tla (action properties, liveness) + TLC trace validation of recorded pipeline event logs"),
 "C12": ("model_checking", "6 C12",
         "spec/PyIsolation.tla: serializer streams and parser processes in one system; TLC checks that what a stream emits equals its solo output and that what a parser yields is its workload (Isolated, IsolatedRead) over ALL interleavings, refutes five shared-state designs (repeated terms / lookup table / row buffer on the write side, decoder table / previous terms on the read side), and enumerates the interleavings (70 for 4+4 steps, three-way, two parsers). "
         "Each schedule is imposed on real generator pipelines of both integrations and a parser, then on real threads handing over a baton in that order, then free-running threads with a 1 microsecond switch interval; prior process history and fresh processes under several PYTHONHASHSEED values are compared with the solo bytes.",
         "TLC exhaustive enumeration of interleavings (spec/PyIsolation.tla) replayed on real generator pipelines and threads; subprocess determinism"),
 "C13": ("model_checking", "6 C13",
         "spec/PyHeader.tla states the reader contract for headers (forbidden physical/logical pairs, name table >= 8, tables <= 4096, version <= 2, strict flat/grouped gates, non-strict independence of the logical type); TLC enumerates the complete lattice "
         "pt x 8 logical types x table sizes {7,8,4096,4097} x versions x {flat,grouped} x strict with the expected outcome of each point; each point becomes bytes (by /verif's codec, also for pairs pyjelly's writer refuses) and goes through both integrations' parsers. "
         "The writer lattice is replayed and the header, read by /verif's codec and by get_options_and_frames, compared with the configuration (version 2 iff nsdecl, Unicode names).",
         "TLC exhaustive enumeration of the header lattice (spec/PyHeader.tla) with expected outcomes, replayed into writer and parsers"),
 "C14": ("model_checking", "6 C14",
         "TLC closes PyWriter.Namespace o JellyReader.RdNamespace on slices where declarations evict prefixes (prefix table 1-2); simulated behaviours with declarations are replayed through Stream.namespace_declaration and as bindings on "
         "GenericStatementSink / rdflib Graph / Dataset through stream_frames and Graph.serialize (TRIPLES, QUADS, GRAPHS); wire judged by TLC; order and content of what the reader receives, on/off equivalence of the statements (also for plain statement iterators, which have nothing to declare), absence when off, and regeneration are compared.",
         "TLC model checking of the namespace slices + replay of TLC behaviours through both integrations + TLC trace judging"),
 "C17": ("exploration", "6 C17",
         "spec/Hostile.tla gives the alphabet of structure-aware hostile tokens (declared table sizes up to 2^32-1, ids up to 2^32-1, nesting up to 5000, frame lengths short/long/2^31-1/2^63-1/unterminated, options in odd places, garbage) and TLC checks Progress, Bounded allocation and termination of the abstract parser loop over every token sequence up to MaxLen; "
         "each sequence, longer random walks, byte-level perturbations of real streams and huge declared frame lengths followed by 1.5 MiB of real bytes are parsed by all six entry points from BytesIO, real files, BufferedReader and non-seekable sources in a worker with RLIMIT_AS and a watchdog. The behaviour of the protobuf C extension is observed, not modelled.",
         "TLC exhaustive enumeration of hostile token sequences (spec/Hostile.tla) + watchdogged execution of every parse entry point; random byte perturbation"),
 "C18": ("model_checking", "6 C18",
         "Small undersized universes are closed on real Streams under both term encoders: every reachable state x every call is either refused (stream failed, valid prefix) or judged valid and faithful by TLC (Tier-1 inductive step on the real edge), and equals PyWriter's transition. PyWriter (with the per-row claim/refusal logic of TermEncoder) is simulated with the Fits guard off over universes whose statements need more prefix/datatype/name entries than the table holds; "
         "each behaviour is replayed into a real Stream (generic term encoder, and the rdflib term encoder for the IRI-only universes): the refusal must come exactly where the model refuses, and whatever was written is judged by TLC against the accepted statements.",
         "TLC simulation of PyWriter (CheckFits=FALSE) replayed into real Streams + TLC trace judging"),
 "C19": ("model_checking", "6 C19",
         "Audit clauses (redundant entry, missed elision, missed zero form, missed regrouping) are part of the Tier-1 reader and are evaluated by TLC on every row of every real stream (generic and rdflib term encoders); the model composition checks the same clauses exhaustively on the slices.",
         "TLC trace validation with audit counters (spec/JellyReader.tla) + model checking of the Tight:* clauses in PyWriter"),
}

checks = []
for pid, (cat, ref, text, tech) in CHECKS.items():
    checks.append({
        "property_id": pid,
        "quick_cmd": f"./check {pid} --tier quick",
        "thorough_cmd": f"./check {pid} --tier thorough",
        "evidence_file": f"/verif/evidence/{pid}.json",
        "replay_cmd_template": f"./check {pid} --replay {{path}}",
        "engine": "tlc+replay",
        "level_claimed": {"category": cat, "text": text, "design_ref": f"DESIGN.md section {ref}"},
        "level_note": TB,
        "technique": tech,
    })

m = {
 "version": 1,
 "setup_cmd": "true",
 "hooks": {
   "guard": "JELLY_RDF_PYJELLY_VERIF",
   "enable": "no source hooks in /repo: recorders are installed from /verif by wrapping functions at run time; ./check sets JELLY_RDF_PYJELLY_VERIF=1 and PYTHONPATH=/repo so the working tree (not the compiled copy in /venv) is imported",
   "baseline_off_cmd": "cd /repo && /venv/bin/python -m pytest -ra -q -p no:cacheprovider --timeout=900 --continue-on-collection-errors; rc=$?; git -C /repo checkout -- tests/integration_tests/test_examples/temp; exit $rc",
   "source_commits": [],
   "fix_commits": ["caaa11c", "ad129d3", "7027c39", "8dbb8a6", "b731d1a", "a25bb8c", "e37ed0f", "024b3cb", "401ae95", "38e535b", "6cc2110", "c6d2d66"],
   "add_only": True,
 },
 "engines": [
   {"name": "tlc+replay", "path": "/verif/check", "serves_properties": sorted(CHECKS),
    "kind_free_text": "TLA+ specifications under spec/ checked by TLC; bound to pyjelly by trace validation (TLC judges recorded executions) and by replaying TLC-generated behaviours into the real classes (harness/)"},
 ],
 "checks": checks,
 "not_applicable": [{"property_id": p["id"], "reason": "check not built yet (build in progress; see DESIGN.md section 6)"}
                    for p in props if p["id"] not in CHECKS],
 "notes": "Model-based verification with explicit TLA+ specs (spec/) checked by TLC and bound to pyjelly by trace validation and replay; see DESIGN.md.",
}
json.dump(m, open(os.path.join(HERE, "MANIFEST.json"), "w"), indent=1)
print("checks:", len(checks), "not_applicable:", len(m["not_applicable"]))
