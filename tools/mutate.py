#!/usr/bin/env python3
"""
Mechanical mutants of pyjelly, as an unbiased supplement to the hand-made seeded changes (DESIGN.md section 12).

  tools/mutate.py list  <repo> <seed> <n>           -> JSON list of n sampled mutants (file, line, kind, description)
  tools/mutate.py apply <repo-copy> <mutant-json>   -> rewrites ONE file of the copy in place

A mutant is one small syntactic change of one expression or statement: comparison operator swapped (== / !=, < / <=, is / ==, in / not in),
`and` / `or` swapped, `not` dropped, + / - swapped, an integer constant moved by one, an `if` condition forced, one statement deleted.
Only mutants that keep the repository's test-suite green are interesting for /verif (the others are caught by the tests already);
tools/run_mutants.sh filters them and runs the checks that own the mutated file.
"""
from __future__ import annotations

import ast
import copy
import json
import os
import random
import sys

FILES = [
    "pyjelly/options.py",
    "pyjelly/parse/decode.py", "pyjelly/parse/ioutils.py", "pyjelly/parse/lookup.py",
    "pyjelly/serialize/encode.py", "pyjelly/serialize/flows.py", "pyjelly/serialize/ioutils.py", "pyjelly/serialize/lookup.py", "pyjelly/serialize/streams.py",
    "pyjelly/integrations/generic/parse.py", "pyjelly/integrations/generic/serialize.py", "pyjelly/integrations/generic/generic_sink.py",
    "pyjelly/integrations/rdflib/parse.py", "pyjelly/integrations/rdflib/serialize.py",
]

CMP = {ast.Eq: ast.NotEq, ast.NotEq: ast.Eq, ast.Lt: ast.LtE, ast.LtE: ast.Lt, ast.Gt: ast.GtE, ast.GtE: ast.Gt,
       ast.Is: ast.Eq, ast.IsNot: ast.NotEq, ast.In: ast.NotIn, ast.NotIn: ast.In}


class Finder(ast.NodeVisitor):
    """Enumerates mutation sites as (kind, node path index) in a deterministic order."""

    def __init__(self):
        self.sites = []
        self.n = 0

    def generic_visit(self, node):
        idx = self.n
        self.n += 1
        node._mut_idx = idx
        if isinstance(node, ast.Compare) and len(node.ops) == 1 and type(node.ops[0]) in CMP:
            self.sites.append((idx, "compare", f"{type(node.ops[0]).__name__} -> {CMP[type(node.ops[0])].__name__}", node.lineno))
        elif isinstance(node, ast.BoolOp):
            self.sites.append((idx, "boolop", "and <-> or", node.lineno))
        elif isinstance(node, ast.UnaryOp) and isinstance(node.op, ast.Not):
            self.sites.append((idx, "not", "not dropped", node.lineno))
        elif isinstance(node, ast.BinOp) and isinstance(node.op, (ast.Add, ast.Sub)) and not isinstance(node.left, ast.Constant | ast.JoinedStr):
            self.sites.append((idx, "binop", "+ <-> -", node.lineno))
        elif isinstance(node, ast.Constant) and type(node.value) is int and 0 <= node.value <= 4096:
            self.sites.append((idx, "const+1", f"{node.value} -> {node.value + 1}", node.lineno))
            if node.value > 0:
                self.sites.append((idx, "const-1", f"{node.value} -> {node.value - 1}", node.lineno))
        elif isinstance(node, ast.If | ast.While) and not isinstance(node.test, ast.Constant):
            self.sites.append((idx, "if-true", "condition forced True", node.lineno))
            self.sites.append((idx, "if-false", "condition forced False", node.lineno))
        elif isinstance(node, ast.Expr) and isinstance(node.value, ast.Call):
            self.sites.append((idx, "del-call", "call statement deleted", node.lineno))
        elif isinstance(node, ast.Assign | ast.AugAssign) and not _is_dunder_or_typing(node):
            self.sites.append((idx, "del-assign", "assignment deleted", node.lineno))
        super().generic_visit(node)


def _is_dunder_or_typing(node):
    t = node.targets[0] if isinstance(node, ast.Assign) else node.target
    return isinstance(t, ast.Name) and (t.id.startswith("__") or t.id.isupper())


class Applier(ast.NodeTransformer):
    def __init__(self, idx, kind):
        self.idx, self.kind, self.n, self.done = idx, kind, 0, False

    def generic_visit(self, node):
        idx = self.n
        self.n += 1
        node = super().generic_visit(node)
        if idx != self.idx:
            return node
        self.done = True
        k = self.kind
        if k == "compare":
            node.ops = [CMP[type(node.ops[0])]()]
        elif k == "boolop":
            node.op = ast.Or() if isinstance(node.op, ast.And) else ast.And()
        elif k == "not":
            return node.operand
        elif k == "binop":
            node.op = ast.Sub() if isinstance(node.op, ast.Add) else ast.Add()
        elif k == "const+1":
            node.value += 1
        elif k == "const-1":
            node.value -= 1
        elif k == "if-true":
            node.test = ast.Constant(True)
        elif k == "if-false":
            node.test = ast.Constant(False)
        elif k in ("del-call", "del-assign"):
            return ast.Pass()
        return node


def sites_of(path):
    tree = ast.parse(open(path).read())
    f = Finder()
    f.visit(tree)
    return f.sites


def cmd_list(repo, seed, n):
    allm = []
    for rel in FILES:
        p = os.path.join(repo, rel)
        if not os.path.exists(p):
            continue
        for idx, kind, desc, line in sites_of(p):
            allm.append({"file": rel, "idx": idx, "kind": kind, "desc": desc, "line": line})
    rnd = random.Random(int(seed))
    rnd.shuffle(allm)
    out = allm[: int(n)]
    for i, m in enumerate(out):
        m["id"] = f"M{int(seed)}-{i:03d}"
    json.dump({"total_sites": len(allm), "mutants": out}, sys.stdout, indent=1)


def cmd_apply(repo, mutant_json):
    m = json.loads(mutant_json)
    p = os.path.join(repo, m["file"])
    src = open(p).read()
    tree = ast.parse(src)
    # number the nodes exactly as Finder did (pre-order), then transform (Applier counts pre-order as well)
    a = Applier(m["idx"], m["kind"])
    order = Finder()
    order.visit(copy.deepcopy(tree))
    new = a.visit(tree)
    if not a.done:
        sys.exit("mutation site not found")
    ast.fix_missing_locations(new)
    open(p, "w").write(ast.unparse(new) + "\n")


if __name__ == "__main__":
    if sys.argv[1] == "list":
        cmd_list(*sys.argv[2:5])
    elif sys.argv[1] == "apply":
        cmd_apply(sys.argv[2], sys.argv[3])
    else:
        sys.exit(__doc__)
