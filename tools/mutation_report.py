#!/usr/bin/env python3
"""Summarise a run of tools/run_mutants.sh:  tools/mutation_report.py <scratch dir>  ->  mutation/RESULTS.json, mutation/RESULTS.md
Survivors are annotated from mutation/survivors.json (id -> why the mutant is equivalent / property-preserving), written by hand."""
import collections
import glob
import json
import os
import sys

HERE = os.path.dirname(os.path.dirname(os.path.abspath(__file__)))
rows = []
for f in sorted(glob.glob(os.path.join(sys.argv[1], "results_*.jsonl"))):
    rows += [json.loads(l) for l in open(f)]
rows.sort(key=lambda r: r["id"])
notes = json.load(open(os.path.join(HERE, "mutation", "survivors.json"))) if os.path.exists(os.path.join(HERE, "mutation", "survivors.json")) else {}
green = [r for r in rows if r["tests"] == "green"]
det = [r for r in green if r["detected_by"]]
surv = [r for r in green if not r["detected_by"]]
out = {"mutants_sampled": len(rows), "killed_by_repository_tests": len(rows) - len(green), "survive_the_tests": len(green),
       "detected_by_a_check": len(det), "detected_by": dict(collections.Counter(r["detected_by"] for r in det)),
       "not_detected": len(surv), "not_detected_explained": sum(1 for r in surv if r["id"] in notes),
       "mutants": [{k: r[k] for k in ("id", "file", "line", "kind", "desc", "tests", "detected_by")} | ({"note": notes.get(r["id"], "")} if r in surv else {}) for r in rows]}
json.dump(out, open(os.path.join(HERE, "mutation", "RESULTS.json"), "w"), indent=1)
with open(os.path.join(HERE, "mutation", "RESULTS.md"), "w") as f:
    f.write(f"# Mechanical mutants (tools/mutate.py, seed 1)\n\n{len(rows)} sampled of the mutation sites; {len(rows) - len(green)} killed by the repository's tests; "
            f"{len(green)} keep the tests green; of those {len(det)} are reported by a check (VIOLATION, exit 1) and {len(surv)} are not.\n\n")
    f.write("## Not reported by any check\n\n| id | site | mutation | drift reported | why |\n|---|---|---|---|---|\n")
    for r in surv:
        f.write(f"| {r['id']} | {r['file']}:{r['line']} | {r['kind']} ({r['desc']}) | {'yes' if any(c['drift'] for c in r['checks']) else 'no'} | {notes.get(r['id'], 'TO BE EXAMINED')} |\n")
    f.write("\n## Reported\n\n| id | site | mutation | first check that reports it |\n|---|---|---|---|\n")
    for r in det:
        f.write(f"| {r['id']} | {r['file']}:{r['line']} | {r['kind']} ({r['desc']}) | {r['detected_by']} |\n")
print(json.dumps({k: v for k, v in out.items() if k != "mutants"}))
