#!/bin/sh
# tools/run_mutants.sh <list.json> <lane> <nlanes> <scratch> [<verifdir>]
# For every mutant of the lane: fresh copy of the repository, apply, run the repository's tests; if they stay green run the quick checks that own
# the mutated file (cheapest first, stop at the first one that reports a VIOLATION).  One JSON line per mutant in <scratch>/results_<lane>.jsonl.
LIST="$1"; LANE="$2"; NL="$3"; S="$4"; V="${5:-/verif}"
HERE="$(cd "$(dirname "$0")" && pwd)"
N=$(python3 -c "import json;print(len(json.load(open('$LIST'))['mutants']))")
i=$LANE
while [ "$i" -lt "$N" ]; do
  M=$(python3 -c "import json;print(json.dumps(json.load(open('$LIST'))['mutants'][$i]))")
  F=$(python3 -c "import json,sys;print(json.loads(sys.argv[1])['file'])" "$M")
  D="$S/lane$LANE"
  rm -rf "$D"; rsync -a "$S/base/" "$D/"
  if ! python3 "$HERE/mutate.py" apply "$D" "$M" 2>/dev/null; then i=$((i+NL)); continue; fi
  T=$(cd "$D" && PYTHONPATH="$D" timeout 600 /venv/bin/python -m pytest -x -q -p no:cacheprovider --timeout=300 2>&1 | tail -1)
  case "$T" in
    *passed*) case "$T" in *failed*|*error*) TESTS=killed;; *) TESTS=green;; esac;;
    *) TESTS=killed;;
  esac
  RES="[]"; DET=""
  if [ "$TESTS" = green ]; then
    case "$F" in
      pyjelly/options.py) CH="C13 C06 C08 C04 C01";;
      pyjelly/parse/ioutils.py) CH="C08 C09 C10 C07 C17 C11 C04";;
      pyjelly/parse/*) CH="C05 C04 C16 C15 C14 C07 C10 C12 C17";;
      pyjelly/serialize/flows.py) CH="C06 C11 C07 C12 C01";;
      pyjelly/serialize/*) CH="C05 C18 C20 C19 C06 C13 C14 C12 C11 C03 C01 C02 C15";;
      pyjelly/integrations/generic/parse.py) CH="C13 C15 C14 C04 C07 C10 C16 C12 C01";;
      pyjelly/integrations/rdflib/parse.py) CH="C13 C15 C14 C04 C07 C10 C16 C02";;
      pyjelly/integrations/generic/generic_sink.py) CH="C15 C14 C12 C04 C01";;
      pyjelly/integrations/generic/serialize.py) CH="C06 C15 C14 C19 C07 C11 C03 C01";;
      pyjelly/integrations/rdflib/serialize.py) CH="C06 C15 C14 C18 C20 C07 C11 C03 C02";;
      *) CH="C01 C04";;
    esac
    RES="["
    for P in $CH; do
      O=$(cd "$V" && VERIF_REPO="$D" ./check "$P" --tier quick 2>&1); RC=$?
      NV=$(echo "$O" | grep -c '^VIOLATION'); ND=$(echo "$O" | grep -c 'MODEL-DRIFT')
      RES="$RES{\"check\":\"$P\",\"exit\":$RC,\"violations\":$NV,\"drift\":$ND},"
      if [ "$RC" = 1 ]; then DET="$P"; break; fi
    done
    RES="${RES%,}]"
  fi
  python3 - "$M" "$TESTS" "$RES" "$DET" >> "$S/results_$LANE.jsonl" <<'PY'
import json,sys
m=json.loads(sys.argv[1]); m["tests"]=sys.argv[2]; m["checks"]=json.loads(sys.argv[3]); m["detected_by"]=sys.argv[4]
print(json.dumps(m))
PY
  i=$((i+NL))
done
rm -rf "$S/lane$LANE"
echo "lane $LANE done" >> "$S/done.txt"
