#!/bin/sh
# tools/try_seed.sh <worktree> <property> [other properties...]
# 1. confirms the seeded change in a scratch worktree (tests pass with it, demo fails with it / passes without)
# 2. applies the patch to /repo, runs the named checks (quick), undoes it
WT="$1"; shift
set -u
cd "$WT" || exit 2
git diff -- pyjelly > /tmp/seed.patch
[ -s /tmp/seed.patch ] || cp patch.diff /tmp/seed.patch
echo "--- patch: $(git diff --stat -- pyjelly | tail -1)"
T=$(PYTHONPATH="$WT" /venv/bin/python -m pytest -q -p no:cacheprovider --timeout=900 --ignore=demo.py 2>&1 | tail -1); git checkout -- tests/integration_tests/test_examples/temp 2>/dev/null
echo "--- tests with change: $T"
PYTHONPATH="$WT" /venv/bin/python demo.py >/dev/null 2>&1; echo "--- demo with change: exit $?"
git apply -R /tmp/seed.patch
PYTHONPATH="$WT" /venv/bin/python demo.py >/dev/null 2>&1; echo "--- demo without change: exit $?"
git apply /tmp/seed.patch
cd /verif
git -C /repo apply /tmp/seed.patch || { echo "patch does not apply to /repo"; exit 2; }
for P in "$@"; do
  OUT=$(./check "$P" --tier quick 2>&1); RC=$?
  echo "=== $P exit=$RC  $(echo "$OUT" | grep -c '^VIOLATION') violation lines; $(echo "$OUT" | grep -c MODEL-DRIFT) drift"
  echo "$OUT" | grep -A2 '^VIOLATION' | head -4
  echo "$OUT" | tail -1
done
git -C /repo checkout -- .
git -C /repo status --short | head -3
