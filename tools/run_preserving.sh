#!/bin/sh
# tools/run_preserving.sh [repo]   (PRESERVING_ONLY="name name ..." restricts the variants) -- changes that PRESERVE every listed property (another id order, another split rule, another tuning constant):
# every quick check must exit 0 on them (MODEL-DRIFT lines are expected).  Prints one line per variant x check that does NOT exit 0.
R="${1:-${VP_RUN_REPO:-/repo}}"
cd "$(dirname "$0")/.." || exit 2
for d in preserving/*/; do
  id=$(basename "$d")
  if [ -n "${PRESERVING_ONLY:-}" ]; then case " $PRESERVING_ONLY " in *" $id "*) ;; *) continue;; esac; fi
  git -C "$R" apply "$PWD/$d/patch.diff" || { echo "$id DOES-NOT-APPLY"; continue; }
  for p in C01 C02 C03 C04 C05 C06 C07 C08 C09 C10 C11 C12 C13 C14 C15 C16 C17 C18 C19 C20; do
    out=$(VERIF_REPO="$R" ./check "$p" --tier quick 2>&1); rc=$?
    echo "$id $p exit=$rc drift=$(echo "$out" | grep -c MODEL-DRIFT) $( [ $rc != 0 ] && echo "$out" | grep -m1 'what:\|MACHINERY' | cut -c1-160)"
  done
  git -C "$R" checkout -- .
done
